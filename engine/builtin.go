package main

import (
	"fmt"
	"go/types"

	"golang.org/x/tools/go/ssa"
)

const maxAlloc = uint64(1) << 47

// ---------- indexing / slicing

// concreteIndex forces an index term to a concrete value in [0,n) by case splitting.
func (st *State) concreteIndex(i *Term, n int, what string) int {
	if i.IsConst() {
		v := i.SVal()
		if i.S.W == 64 && (v < 0 || v >= int64(n)) {
			panic(goPanic{"bounds", fmt.Sprintf("index out of range [%d] with length %d (%s)", v, n, what)})
		}
		if i.S.W < 64 && i.C >= uint64(n) {
			panic(goPanic{"bounds", fmt.Sprintf("index out of range [%d] with length %d (%s)", i.C, n, what)})
		}
		return int(i.C)
	}
	for k := 0; k < n; k++ {
		if st.decide(Eq(i, BVC(i.S.W, uint64(k)))) {
			return k
		}
	}
	panic(goPanic{"bounds", fmt.Sprintf("index out of range with length %d (%s)", n, what)})
}

func toIdx64(v Value, t types.Type) *Term {
	if iv, ok := v.(IntV); ok {
		if iv.T.IsConst() && iv.T.Big.IsInt64() {
			return I64(iv.T.Big.Int64())
		}
		panic(abortSignal{"int mode: symbolic index"})
	}
	b := v.(BV).T
	if b.S.W == 64 {
		return b
	}
	_, signed, _ := intWidth(t)
	if signed {
		return SExt(b, 64)
	}
	return ZExt(b, 64)
}

func (e *Engine) indexAddr(st *State, fr *Frame, x *ssa.IndexAddr) Value {
	base := e.val(st, fr, x.X)
	idx := toIdx64(e.val(st, fr, x.Index), x.Index.Type())
	switch b := base.(type) {
	case Slice:
		// bounds: 0 <= idx < len  (unsigned compare covers negatives)
		if !st.decide(BVUlt(idx, b.Len)) {
			panic(goPanic{"bounds", "index out of range (slice)"})
		}
		o := st.obj(b.Obj)
		if o.Kind == OBytes {
			return Ptr{Obj: b.Obj, Idx: BVAdd(b.Off, idx)}
		}
		off := st.concreteIndex(b.Off, len(o.Cells)+1, "slice offset")
		k := st.concreteIndex(idx, len(o.Cells)-off, "slice element")
		p := Ptr{Obj: b.Obj, Cell: off + k}
		et := x.Type().(*types.Pointer).Elem()
		return st.hop(p, et)
	case Ptr:
		if b.Obj == 0 {
			panic(goPanic{"nil-deref", "nil pointer dereference (index)"})
		}
		o := st.obj(b.Obj)
		if o.Kind == OBytes {
			if !st.decide(BVUlt(idx, o.Len)) {
				panic(goPanic{"bounds", "index out of range (array)"})
			}
			return Ptr{Obj: b.Obj, Idx: idx}
		}
		k := st.concreteIndex(idx, len(o.Cells), "array element")
		p := Ptr{Obj: b.Obj, Cell: k}
		et := x.Type().(*types.Pointer).Elem()
		return st.hop(p, et)
	}
	panic(abortSignal{fmt.Sprintf("indexaddr on %T", base)})
}

func (e *Engine) index(st *State, fr *Frame, x *ssa.Index) Value {
	base := e.val(st, fr, x.X)
	idx := toIdx64(e.val(st, fr, x.Index), x.Index.Type())
	switch b := base.(type) {
	case ArrayV:
		o := st.obj(b.Obj)
		if o.Kind == OBytes {
			if !st.decide(BVUlt(idx, o.Len)) {
				panic(goPanic{"bounds", "index out of range (array value)"})
			}
			return BV{Select(o.Arr, idx)}
		}
		k := st.concreteIndex(idx, len(o.Cells), "array value element")
		return o.Cells[k]
	case Slice: // string indexing
		if !st.decide(BVUlt(idx, b.Len)) {
			panic(goPanic{"bounds", "index out of range (string)"})
		}
		return BV{Select(st.obj(b.Obj).Arr, BVAdd(b.Off, idx))}
	}
	panic(abortSignal{fmt.Sprintf("index on %T", base)})
}

func (e *Engine) sliceOp(st *State, fr *Frame, x *ssa.Slice) Value {
	base := e.val(st, fr, x.X)
	var obj int
	var off, ln, cp *Term
	isStr := false
	switch b := base.(type) {
	case Slice:
		obj, off, ln, cp = b.Obj, b.Off, b.Len, b.Cap
		if isStringType(x.X.Type()) {
			isStr = true
			cp = ln
		}
	case Ptr:
		if b.Obj == 0 {
			panic(goPanic{"nil-deref", "slice of nil array pointer"})
		}
		o := st.obj(b.Obj)
		obj, off = b.Obj, U64(0)
		if o.Kind == OBytes {
			ln = o.Len
		} else {
			ln = U64(uint64(len(o.Cells)))
		}
		cp = ln
	default:
		panic(abortSignal{fmt.Sprintf("slice of %T", base)})
	}
	lo := U64(0)
	if x.Low != nil {
		lo = toIdx64(e.val(st, fr, x.Low), x.Low.Type())
	}
	var hi, mx *Term
	if x.High != nil {
		hi = toIdx64(e.val(st, fr, x.High), x.High.Type())
	} else {
		hi = ln
	}
	if x.Max != nil {
		mx = toIdx64(e.val(st, fr, x.Max), x.Max.Type())
	} else {
		mx = cp
	}
	// 0 <= lo <= hi <= mx <= cap   (for strings/arrays cap == len)
	okc := And(BVUle(lo, hi), BVUle(hi, mx), BVUle(mx, cp))
	if !st.decide(okc) {
		panic(goPanic{"bounds", "slice bounds out of range"})
	}
	_ = isStr
	if obj == 0 {
		return Slice{Obj: 0, Off: U64(0), Len: U64(0), Cap: U64(0)}
	}
	nl := BVSub(hi, lo)
	nc := BVSub(mx, lo)
	if isStr {
		nc = nl
	}
	return Slice{Obj: obj, Off: BVAdd(off, lo), Len: nl, Cap: nc}
}

func (e *Engine) makeSlice(st *State, t types.Type, lv, cv Value) Value {
	ln := lv.(BV).T
	cp := cv.(BV).T
	if ln.S.W != 64 {
		ln = SExt(ln, 64)
	}
	if cp.S.W != 64 {
		cp = SExt(cp, 64)
	}
	et := t.Underlying().(*types.Slice).Elem()
	esz := uint64(e.sizeof(et))
	if esz == 0 {
		esz = 1
	}
	lim := maxAlloc / esz
	if !st.decide(And(BVUle(ln, cp), BVUle(cp, U64(lim)))) {
		panic(goPanic{"makeslice", "makeslice: len out of range"})
	}
	e.noteAlloc(st, cp, esz)
	if isByteType(et) {
		id := st.newBytes(ZeroArr(), cp)
		return Slice{Obj: id, Off: U64(0), Len: ln, Cap: cp}
	}
	n := st.concreteSize(cp, "make cap")
	cells := make([]Value, n)
	for i := range cells {
		cells[i] = st.zero(et)
	}
	id := st.newCells(et, cells)
	return Slice{Obj: id, Off: U64(0), Len: ln, Cap: cp}
}

// concreteSize case-splits a symbolic size over 0..limit.
func (st *State) concreteSize(n *Term, what string) int {
	if n.IsConst() {
		if n.C > 1<<20 {
			panic(abortSignal{fmt.Sprintf("%s: concrete size %d too large", what, n.C)})
		}
		return int(n.C)
	}
	lo := 0
	if n.Op == "bvadd" && n.Args[1].IsConst() && n.Args[1].SVal() > 0 {
		lo = int(n.Args[1].C) // x + c >= c for lengths
	}
	for k := lo; k <= lo+192; k++ {
		if st.decide(Eq(n, U64(uint64(k)))) {
			return k
		}
	}
	panic(killSignal{"UNWIND size split >192 for " + what})
}

func (e *Engine) sizeof(t types.Type) (r int64) {
	defer func() {
		if recover() != nil {
			r = 8
		}
	}()
	return sizes.Sizeof(t)
}

var sizes = types.SizesFor("gc", "amd64")

// noteAlloc implements the allocation-bound monitor (C03).
func (e *Engine) noteAlloc(st *State, n *Term, esz uint64) {
	if !e.cfg.AllocBound || st.allocBoundOff || n.IsConst() {
		return
	}
	lim, ok := st.ghost["allocLimit"].(BV)
	if !ok {
		return
	}
	sz := n
	if esz > 1 {
		sz = BVMul(n, U64(esz))
	}
	if !st.decide(BVUle(sz, lim.T)) {
		panic(goPanic{"alloc", "allocation out of proportion to input"})
	}
}

// ---------- builtins

func (e *Engine) builtin(st *State, name string, args []Value, ci ssa.CallInstruction) Value {
	switch name {
	case "len":
		switch x := args[0].(type) {
		case Slice:
			return BV{x.Len}
		case MapV:
			return BV{e.mapLen(st, x)}
		case ArrayV:
			o := st.obj(x.Obj)
			if o.Kind == OBytes {
				return BV{o.Len}
			}
			return BV{U64(uint64(len(o.Cells)))}
		case Ptr:
			o := st.obj(x.Obj)
			if o.Kind == OBytes {
				return BV{o.Len}
			}
			return BV{U64(uint64(len(o.Cells)))}
		}
	case "cap":
		switch x := args[0].(type) {
		case Slice:
			return BV{x.Cap}
		case ArrayV:
			o := st.obj(x.Obj)
			if o.Kind == OBytes {
				return BV{o.Len}
			}
			return BV{U64(uint64(len(o.Cells)))}
		}
	case "append":
		return e.appendOp(st, args[0].(Slice), args[1].(Slice), ci)
	case "copy":
		return e.copyOp(st, args[0].(Slice), args[1].(Slice))
	case "delete":
		m := args[0].(MapV)
		e.mapDelete(st, m, args[1])
		return nil
	case "recover":
		return Iface{}
	case "print", "println":
		return nil
	case "min", "max":
		a, b := args[0].(BV).T, args[1].(BV).T
		_, signed, _ := intWidth(ci.Common().Args[0].Type())
		var lt *Term
		if signed {
			lt = BVSlt(a, b)
		} else {
			lt = BVUlt(a, b)
		}
		if name == "min" {
			return BV{Ite(lt, a, b)}
		}
		return BV{Ite(lt, b, a)}
	case "clear", "close":
		return nil
	}
	panic(abortSignal{fmt.Sprintf("builtin %s on %T", name, args[0])})
}

func (e *Engine) elemType(ci ssa.CallInstruction, i int) types.Type {
	t := ci.Common().Args[i].Type().Underlying()
	if s, ok := t.(*types.Slice); ok {
		return s.Elem()
	}
	return types.Typ[types.Uint8] // string
}

func (e *Engine) appendOp(st *State, a, b Slice, ci ssa.CallInstruction) Value {
	et := e.elemType(ci, 0)
	if b.Len.IsConst() && b.Len.C == 0 {
		return a
	}
	n := BVAdd(a.Len, b.Len)
	isBytes := isByteType(et)
	fits := tFalse
	if a.Obj != 0 {
		fits = BVUle(n, a.Cap)
	}
	// all decisions first
	inPlace := st.decide(fits)
	if inPlace {
		e.noteWrite(st, a.Obj, "append in place")
		if isBytes {
			w := st.wobj(a.Obj)
			src := st.obj(b.Obj).Arr
			w.Arr = copyInto(w.Arr, BVAdd(a.Off, a.Len), src, b.Off, b.Len)
			return Slice{Obj: a.Obj, Off: a.Off, Len: n, Cap: a.Cap}
		}
		ao := st.concreteIndex(a.Off, 1<<20, "append off")
		al := st.concreteSize(a.Len, "append len")
		bl := st.concreteSize(b.Len, "append len")
		bo := st.concreteIndex(b.Off, 1<<20, "append off")
		src := st.obj(b.Obj)
		vals := make([]Value, bl)
		for i := 0; i < bl; i++ {
			vals[i] = src.Cells[bo+i]
		}
		w := st.wobj(a.Obj)
		for i := 0; i < bl; i++ {
			w.Cells[ao+al+i] = st.storeInto(w.Cells[ao+al+i], vals[i])
		}
		return Slice{Obj: a.Obj, Off: a.Off, Len: n, Cap: a.Cap}
	}
	// grow: new object
	if isBytes {
		var nc *Term
		if a.Len.IsConst() && b.Len.IsConst() && a.Cap.IsConst() {
			nc = U64(growCap(a.Cap.C, n.C, 1))
		} else {
			nc = st.fresh("appcap", SBV(64))
			st.addPC(And(BVUle(n, nc), BVUle(nc, BVAdd(BVAdd(n, n), U64(1024)))))
			// n itself must not have overflowed
			st.addPC(BVUle(a.Len, n))
		}
		e.noteAlloc(st, nc, 1)
		arr := ZeroArr()
		if a.Obj != 0 {
			arr = copyInto(arr, U64(0), st.obj(a.Obj).Arr, a.Off, a.Len)
		}
		arr = copyInto(arr, a.Len, st.obj(b.Obj).Arr, b.Off, b.Len)
		id := st.newBytes(arr, nc)
		return Slice{Obj: id, Off: U64(0), Len: n, Cap: nc}
	}
	al := st.concreteSize(a.Len, "append len")
	bl := st.concreteSize(b.Len, "append len")
	ac := 0
	if a.Cap.IsConst() {
		ac = int(a.Cap.C)
	}
	esz := uint64(e.sizeof(et))
	if esz == 0 {
		esz = 8
	}
	ncap := int(growCap(uint64(ac), uint64(al+bl), esz))
	cells := make([]Value, ncap)
	if a.Obj != 0 && al > 0 {
		ao := st.concreteIndex(a.Off, 1<<20, "append off")
		src := st.obj(a.Obj)
		for i := 0; i < al; i++ {
			cells[i] = st.deepCopy(src.Cells[ao+i])
		}
	}
	bo := st.concreteIndex(b.Off, 1<<20, "append off")
	src := st.obj(b.Obj)
	for i := 0; i < bl; i++ {
		cells[al+i] = st.deepCopy(src.Cells[bo+i])
	}
	for i := al + bl; i < ncap; i++ {
		cells[i] = st.zero(et)
	}
	id := st.newCells(et, cells)
	return Slice{Obj: id, Off: U64(0), Len: U64(uint64(al + bl)), Cap: U64(uint64(ncap))}
}

// noteRead: reads matter to the monitor only for objects already handed back to a sync.Pool
func (e *Engine) noteRead(st *State, obj int, what string) {
	if st.released[obj] && st.sharedMax != 0 {
		e.sharedWrite(st, obj, what+" of an object after it was handed back to a sync.Pool")
	}
}

func (e *Engine) noteWrite(st *State, obj int, what string) {
	if st.released[obj] && st.sharedMax != 0 {
		e.sharedWrite(st, obj, what+" into an object after it was handed back to a sync.Pool")
		return
	}
	if st.sharedMax != 0 && obj != 0 && st.isShared(obj) && st.onceDepth == 0 && st.lockDepth == 0 {
		e.sharedWrite(st, obj, what)
	}
}

// growCap mirrors runtime.growslice (Go 1.20+) including size-class rounding for small sizes.
func growCap(oldCap, newLen, esz uint64) uint64 {
	newcap := oldCap
	doublecap := newcap + newcap
	if newLen > doublecap {
		newcap = newLen
	} else {
		const threshold = 256
		if oldCap < threshold {
			newcap = doublecap
		} else {
			for newcap < newLen {
				newcap += (newcap + 3*threshold) >> 2
			}
		}
	}
	mem := roundupsize(newcap * esz)
	return mem / esz
}

var sizeClasses = []uint64{0, 8, 16, 24, 32, 48, 64, 80, 96, 112, 128, 144, 160, 176, 192, 208, 224, 240, 256, 288, 320, 352, 384, 416, 448, 480, 512, 576, 640, 704, 768, 896, 1024, 1152, 1280, 1408, 1536, 1792, 2048, 2304, 2688, 3072, 3200, 3456, 4096, 4864, 5376, 6144, 6528, 6784, 6912, 8192, 9472, 9728, 10240, 10880, 12288, 13568, 14336, 16384, 18432, 19072, 20480, 21760, 24576, 27264, 28672, 32768}

func roundupsize(sz uint64) uint64 {
	if sz <= 32768 {
		for _, c := range sizeClasses {
			if c >= sz {
				return c
			}
		}
	}
	const page = 8192
	return (sz + page - 1) / page * page
}

func (e *Engine) copyOp(st *State, dst, src Slice) Value {
	// n = min(len dst, len src)
	n := Ite(BVUlt(dst.Len, src.Len), dst.Len, src.Len)
	if dst.Obj == 0 || src.Obj == 0 {
		return BV{U64(0)}
	}
	do := st.obj(dst.Obj)
	if do.Kind == OBytes {
		if n.IsConst() && n.C == 0 {
			return BV{n}
		}
		srcArr := st.obj(src.Obj).Arr
		e.noteRead(st, src.Obj, "copy")
		e.noteWrite(st, dst.Obj, "copy")
		w := st.wobj(dst.Obj)
		w.Arr = copyInto(w.Arr, dst.Off, srcArr, src.Off, n)
		return BV{n}
	}
	cnt := st.concreteSize(n, "copy")
	doff := st.concreteIndex(dst.Off, 1<<20, "copy")
	soff := st.concreteIndex(src.Off, 1<<20, "copy")
	so := st.obj(src.Obj)
	vals := make([]Value, cnt)
	for i := 0; i < cnt; i++ {
		vals[i] = st.deepCopy(so.Cells[soff+i])
	}
	w := st.wobj(dst.Obj)
	for i := 0; i < cnt; i++ {
		w.Cells[doff+i] = st.storeInto(w.Cells[doff+i], vals[i])
	}
	return BV{U64(uint64(cnt))}
}

// ---------- maps

func (e *Engine) keyEq(st *State, a, b Value) *Term { return e.valueEq(st, a, b) }

func (e *Engine) mapFind(st *State, m MapV, key Value) (Value, bool) {
	if m.Obj == 0 {
		return nil, false
	}
	o := st.obj(m.Obj)
	for i := len(o.Entries) - 1; i >= 0; i-- {
		en := o.Entries[i]
		if st.decide(e.keyEq(st, en.Key, key)) {
			if en.Present {
				return en.Val, true
			}
			return nil, false
		}
	}
	if o.Arbitrary {
		// unknown initial content: decide presence, invent a value, and remember it
		n := len(o.Entries)
		c := Var(fmt.Sprintf("mapinit_%s_%d_present", o.Name, n), SBool)
		present := st.decide(c)
		var val Value
		if present {
			mk, ok := st.ghost["mapinit:"+o.Name].(Closure)
			_ = mk
			_ = ok
			val = e.arbitraryValue(st, o.ValT, fmt.Sprintf("mapinit_%s_%d", o.Name, n))
		}
		w := st.wobj(m.Obj)
		// insert at the front so that later writes still shadow it
		w.Entries = append([]MapEntry{{Key: key, Present: present, Val: val}}, w.Entries...)
		return val, present
	}
	return nil, false
}

func (e *Engine) arbitraryValue(st *State, t types.Type, name string) Value {
	if w, _, ok := intWidth(t); ok {
		return BV{Var(name, SBV(w))}
	}
	if isBoolType(t) {
		return Bool{Var(name, SBool)}
	}
	if isStringType(t) {
		ln := Var(name+"_len", SBV(64))
		st.addPC(BVUle(ln, U64(64)))
		id := st.newObj(&Obj{Kind: OBytes, Arr: Var(name+"_arr", SArr), Len: ln, ReadOnly: true})
		return Slice{Obj: id, Off: U64(0), Len: ln, Cap: ln}
	}
	return Opaque{Tag: "arbitrary:" + name}
}

func (e *Engine) lookup(st *State, fr *Frame, x *ssa.Lookup) Value {
	base := e.val(st, fr, x.X)
	key := e.val(st, fr, x.Index)
	if s, ok := base.(Slice); ok { // string index
		idx := toIdx64(key, x.Index.Type())
		if !st.decide(BVUlt(idx, s.Len)) {
			panic(goPanic{"bounds", "index out of range (string)"})
		}
		return BV{Select(st.obj(s.Obj).Arr, BVAdd(s.Off, idx))}
	}
	m := base.(MapV)
	v, ok := e.mapFind(st, m, key)
	if !ok {
		v = st.zero(x.X.Type().Underlying().(*types.Map).Elem())
	}
	if x.CommaOk {
		return Tuple{[]Value{v, Bool{BoolC(ok)}}}
	}
	return v
}

func (e *Engine) mapUpdate(st *State, m MapV, key, val Value) {
	if m.Obj == 0 {
		panic(goPanic{"nil-map", "assignment to entry in nil map"})
	}
	// resolve which existing entry (if any) has this key so that entries stay distinct
	o := st.obj(m.Obj)
	for i := len(o.Entries) - 1; i >= 0; i-- {
		if st.decide(e.keyEq(st, o.Entries[i].Key, key)) {
			w := st.wobj(m.Obj)
			w.Entries[i] = MapEntry{Key: o.Entries[i].Key, Present: true, Val: val}
			return
		}
	}
	if o.Arbitrary {
		// key not among known entries: it may or may not have been present initially; either way it is now
	}
	w := st.wobj(m.Obj)
	w.Entries = append(w.Entries, MapEntry{Key: key, Present: true, Val: val})
}

func (e *Engine) mapDelete(st *State, m MapV, key Value) {
	if m.Obj == 0 {
		return
	}
	o := st.obj(m.Obj)
	for i := len(o.Entries) - 1; i >= 0; i-- {
		if st.decide(e.keyEq(st, o.Entries[i].Key, key)) {
			w := st.wobj(m.Obj)
			w.Entries[i].Present = false
			w.Entries[i].Val = nil
			return
		}
	}
	if o.Arbitrary {
		w := st.wobj(m.Obj)
		w.Entries = append(w.Entries, MapEntry{Key: key, Present: false})
	}
}

func (e *Engine) mapLen(st *State, m MapV) *Term {
	if m.Obj == 0 {
		return U64(0)
	}
	o := st.obj(m.Obj)
	if o.Arbitrary {
		panic(abortSignal{"len of arbitrary map"})
	}
	n := 0
	for _, en := range o.Entries {
		if en.Present {
			n++
		}
	}
	return U64(uint64(n))
}

// range over map (concrete key sets only) or string (unsupported)
type rangeIter struct {
	keys []Value
	vals []Value
	pos  int
}

func (e *Engine) rangeOp(st *State, fr *Frame, x *ssa.Range) Value {
	base := e.val(st, fr, x.X)
	m, ok := base.(MapV)
	if !ok {
		panic(abortSignal{"range over string"})
	}
	it := &rangeIter{}
	if m.Obj != 0 {
		o := st.obj(m.Obj)
		if o.Arbitrary {
			panic(abortSignal{"range over arbitrary map"})
		}
		for _, en := range o.Entries {
			if en.Present {
				it.keys = append(it.keys, en.Key)
				it.vals = append(it.vals, en.Val)
			}
		}
	}
	id := st.newCells(nil, []Value{Opaque{Tag: "iter", X: it}, BV{U64(0)}})
	return Ptr{Obj: id, Cell: 0}
}

func (e *Engine) nextOp(st *State, fr *Frame, x *ssa.Next) Value {
	p := e.val(st, fr, x.Iter).(Ptr)
	o := st.obj(p.Obj)
	it := o.Cells[0].(Opaque).X.(*rangeIter)
	pos := int(o.Cells[1].(BV).T.C)
	tt := x.Type().(*types.Tuple)
	if pos >= len(it.keys) {
		return Tuple{[]Value{Bool{tFalse}, st.zero(tt.At(1).Type()), st.zero(tt.At(2).Type())}}
	}
	w := st.wobj(p.Obj)
	w.Cells[1] = BV{U64(uint64(pos + 1))}
	return Tuple{[]Value{Bool{tTrue}, it.keys[pos], it.vals[pos]}}
}
