package main

import (
	"fmt"
	"go/constant"
	"go/token"
	"go/types"
	"math/big"
	"os"
	"strings"
	"time"

	"golang.org/x/tools/go/ssa"
)

type NativeFn func(e *Engine, st *State, args []Value, call ssa.CallInstruction) Value

type Config struct {
	BranchTimeoutMs int
	AssertTimeoutMs int
	MaxPaths        int
	MaxSteps        int // per path
	Unwind          int
	MaxSeconds      float64
	Verbose         int
	AllocBound      bool
}

type Engine struct {
	prog    *ssa.Program
	solver  *Solver
	cfg     Config
	natives map[string]NativeFn
	subst   map[string]*ssa.Function
	groupSubst map[string]map[string]*ssa.Function
	fninfo  map[*ssa.Function]*FnInfo
	allow   func(pkgPath string) bool // packages whose init we execute
	modelsPkg *ssa.Package

	// per harness
	work      []*State
	nextState int
	res       *HarnessResult
	start     time.Time
	strObjs   map[string]bool
	encoded   map[string]bool
	stubs     map[string]bool
	unknownCallees map[string]bool
	intMode   bool
	intObligs []intOblig
	intAxioms []*Term
	byteInts  map[int]*Term
}

type PathEnd struct {
	Kind string // "return","panic","abort","kill","unwind","budget"
	Msg  string
}

type HarnessResult struct {
	Name       string
	Paths      int
	Steps      int
	Asserts    []AssertRec
	Reached    map[string]int
	ReachModels map[string]map[string]interface{}
	Aborts     []string
	Degraded   []string
	Observed   [][]string
	Encoded    []string
	Stubs      []string
	Status     string
	Queries    [3]int
	SolverS    float64
	WallS      float64
	Bounds     map[string]int
	Unchecked  int
	Truncated  int
	Accesses   int
}

func (e *Engine) info(fn *ssa.Function) *FnInfo {
	if fi, ok := e.fninfo[fn]; ok {
		return fi
	}
	fi := &FnInfo{idx: map[ssa.Value]int{}}
	add := func(v ssa.Value) {
		fi.idx[v] = fi.n
		fi.n++
	}
	for _, p := range fn.Params {
		add(p)
	}
	for _, p := range fn.FreeVars {
		add(p)
	}
	for _, b := range fn.Blocks {
		for _, in := range b.Instrs {
			if v, ok := in.(ssa.Value); ok {
				add(v)
			}
		}
	}
	e.fninfo[fn] = fi
	return fi
}

func posOf(st *State, e *Engine) string {
	if len(st.frames) == 0 {
		return "?"
	}
	// innermost frame that has position info in pat-go
	for i := len(st.frames) - 1; i >= 0; i-- {
		fr := st.frames[i]
		if fr.block == nil || fr.ip >= len(fr.block.Instrs) {
			continue
		}
		in := fr.block.Instrs[fr.ip]
		p := in.Pos()
		if !p.IsValid() {
			// look around for a nearby instruction with position
			for j := fr.ip; j >= 0 && !p.IsValid(); j-- {
				p = fr.block.Instrs[j].Pos()
			}
		}
		if p.IsValid() {
			pp := e.prog.Fset.Position(p)
			return fmt.Sprintf("%s:%d", shortPath(pp.Filename), pp.Line)
		}
	}
	return st.top().fn.String()
}

func shortPath(f string) string {
	if i := strings.Index(f, "/repo/"); i >= 0 {
		return f[i+6:]
	}
	if i := strings.Index(f, "/pkg/mod/"); i >= 0 {
		return f[i+9:]
	}
	if i := strings.Index(f, "/src/"); i >= 0 {
		return f[i+5:]
	}
	return f
}

func (e *Engine) stackTrace(st *State) string {
	var sb strings.Builder
	for i := len(st.frames) - 1; i >= 0 && i >= len(st.frames)-8; i-- {
		fr := st.frames[i]
		sb.WriteString(fr.fn.String())
		if fr.block != nil && fr.ip < len(fr.block.Instrs) {
			p := fr.block.Instrs[fr.ip].Pos()
			if p.IsValid() {
				pp := e.prog.Fset.Position(p)
				fmt.Fprintf(&sb, " (%s:%d)", shortPath(pp.Filename), pp.Line)
			}
		}
		sb.WriteString(" <- ")
	}
	return sb.String()
}

// ---------- operand evaluation

func (e *Engine) val(st *State, fr *Frame, v ssa.Value) Value {
	switch x := v.(type) {
	case *ssa.Const:
		return e.constVal(st, x)
	case *ssa.Global:
		return e.globalPtr(st, x)
	case *ssa.Function:
		return Closure{Fn: x}
	case *ssa.Builtin:
		return Closure{Nat: x.Name()}
	}
	i, ok := fr.info.idx[v]
	if !ok {
		panic(abortSignal{fmt.Sprintf("unknown ssa value %s in %s", v.Name(), fr.fn)})
	}
	r := fr.env[i]
	if bv, ok := r.(BV); ok && len(st.eqc) > 0 && !bv.T.IsConst() {
		if c, ok := st.eqc[bv.T.ID]; ok {
			return BV{c}
		}
	}
	return r
}

func (e *Engine) set(fr *Frame, v ssa.Value, val Value) {
	fr.env[fr.info.idx[v]] = val
}

func (e *Engine) constVal(st *State, c *ssa.Const) Value {
	t := c.Type()
	if c.Value == nil {
		return st.zero(t)
	}
	if e.intMode {
		if _, _, ok := intWidth(t); ok && !isByteType(t) {
			bi, _ := new(big.Int).SetString(c.Value.ExactString(), 10)
			if bi != nil {
				return IntV{IntC(bi)}
			}
		}
	}
	if w, _, ok := intWidth(t); ok {
		cv := constant.ToInt(c.Value)
		if u, exact := constant.Uint64Val(cv); exact {
			return BV{BVC(w, u)}
		}
		if i, exact := constant.Int64Val(cv); exact {
			return BV{BVC(w, uint64(i))}
		}
		bi, _ := new(big.Int).SetString(cv.ExactString(), 10)
		return BV{BVBig(w, bi)}
	}
	if isBoolType(t) {
		return Bool{BoolC(constant.BoolVal(c.Value))}
	}
	if isStringType(t) {
		return st.strConst(constant.StringVal(c.Value))
	}
	return Opaque{Tag: "const:" + c.Value.ExactString()}
}

func (st *State) strConst(s string) Value {
	key := "str:" + s
	if v, ok := st.ghost[key]; ok {
		return v
	}
	arr := ZeroArr()
	for i := 0; i < len(s); i++ {
		if s[i] != 0 {
			arr = Store(arr, U64(uint64(i)), BVC(8, uint64(s[i])))
		}
	}
	id := st.newObj(&Obj{Kind: OBytes, Arr: arr, Len: U64(uint64(len(s))), ReadOnly: true})
	n := U64(uint64(len(s)))
	v := Slice{Obj: id, Off: U64(0), Len: n, Cap: n}
	st.ghost[key] = v
	return v
}

func (e *Engine) globalPtr(st *State, g *ssa.Global) Value {
	if id, ok := st.globals[g]; ok {
		return e.ptrToObj(st, id, g.Type().(*types.Pointer).Elem())
	}
	// package init on demand
	if g.Pkg != nil && e.allow(g.Pkg.Pkg.Path()) && !st.inited[g.Pkg] {
		e.pushInit(st, g.Pkg)
		panic(retrySignal{})
	}
	et := g.Type().(*types.Pointer).Elem()
	before := st.nextObj
	p := st.allocFor(et)
	st.globals[g] = p.Obj
	if st.sharedMax != 0 {
		// a package-level variable first touched during the monitored call is shared state all the same
		st.lateGlobals = append(st.lateGlobals, [2]int{before + 1, st.nextObj})
	}
	name := g.String()
	if g.Pkg == nil || !e.allow(g.Pkg.Pkg.Path()) {
		// dependency global: override or synthesize
		if ov, ok := globalOverrides[name]; ok {
			v := ov(e, st)
			st.store(p, v)
		} else if stt, ok := et.Underlying().(*types.Struct); ok && stt.NumFields() == 0 {
			// empty struct (binary.BigEndian, ...): zero value is the value
		} else if types.Identical(et, errorType) || isErrorIface(et) {
			st.store(p, e.opaqueError(st, name))
		} else {
			panic(abortSignal{"read of uninitialised dependency global " + name})
		}
	}
	return p
}

type retrySignal struct{}

var errorType = types.Universe.Lookup("error").Type()

func isErrorIface(t types.Type) bool {
	it, ok := t.Underlying().(*types.Interface)
	return ok && it.NumMethods() == 1 && it.Method(0).Name() == "Error"
}

func (e *Engine) ptrToObj(st *State, id int, et types.Type) Ptr {
	if _, ok := et.Underlying().(*types.Array); ok {
		return Ptr{Obj: id, Cell: -1}
	}
	return Ptr{Obj: id, Cell: 0}
}

func (e *Engine) pushInit(st *State, pkg *ssa.Package) {
	st.inited[pkg] = true
	fn := pkg.Func("init")
	if fn == nil || fn.Blocks == nil {
		return
	}
	e.pushFrame(st, fn, nil, nil)
	st.top().retry = true
}

var opaqueErrType types.Type

func (e *Engine) opaqueError(st *State, tag string) Value {
	return Iface{T: opaqueErrType, V: Opaque{Tag: "error", X: tag}}
}

// ---------- frames

func (e *Engine) pushFrame(st *State, fn *ssa.Function, args []Value, binds []Value) {
	if len(st.frames) > 150 {
		panic(abortSignal{"call depth exceeded in " + fn.String()})
	}
	if fn.Blocks == nil {
		panic(abortSignal{"no body for " + fn.String()})
	}
	fi := e.info(fn)
	fr := &Frame{fn: fn, info: fi, env: make([]Value, fi.n), block: fn.Blocks[0], visits: map[int]int{}}
	if len(args) != len(fn.Params) {
		panic(abortSignal{fmt.Sprintf("arity mismatch calling %s: %d args for %d params", fn, len(args), len(fn.Params))})
	}
	for i, p := range fn.Params {
		fr.env[fi.idx[p]] = args[i]
	}
	for i, p := range fn.FreeVars {
		fr.env[fi.idx[p]] = binds[i]
	}
	st.frames = append(st.frames, fr)
	name := fn.String()
	if !e.encoded[name] {
		e.encoded[name] = true
	}
}

// finishCall delivers a result to the frame below and advances it.
func (e *Engine) popFrame(st *State, results []Value) {
	fr := st.top()
	st.frames = st.frames[:len(st.frames)-1]
	if len(st.frames) == 0 {
		return
	}
	caller := st.top()
	if fr.native == "once" {
		st.onceDepth--
	}
	if fr.retry {
		return // re-execute the caller's current instruction
	}
	if fr.discard {
		return // deferred call: caller continues running defers
	}
	in := caller.block.Instrs[caller.ip]
	if v, ok := in.(ssa.Value); ok {
		var r Value
		switch len(results) {
		case 0:
			r = nil
		case 1:
			r = results[0]
		default:
			r = Tuple{results}
		}
		e.set(caller, v, r)
	}
	caller.ip++
}

// ---------- main loop

func (e *Engine) RunHarness(fn *ssa.Function, base *State) *HarnessResult {
	e.res = &HarnessResult{Name: fn.Name(), Reached: map[string]int{}, ReachModels: map[string]map[string]interface{}{}, Bounds: map[string]int{}}
	e.start = time.Now()
	e.encoded = map[string]bool{}
	e.stubs = map[string]bool{}
	e.unknownCallees = map[string]bool{}
	e.intMode, e.intObligs, e.intAxioms, e.byteInts = false, nil, nil, map[int]*Term{}
	q0 := [3]int{e.solver.NUnsat, e.solver.NSat, e.solver.NUnknown}
	t0 := e.solver.Time
	st := base.clone(0)
	st.epoch = newEpoch()
	e.nextState = 1
	// model globals: maps are created eagerly and the package initialiser is not run (it would
	// depend on pat-go initialisers that in turn call into the models)
	if e.modelsPkg != nil {
		st.inited[e.modelsPkg] = true
		for _, m := range e.modelsPkg.Members {
			g, ok := m.(*ssa.Global)
			if !ok {
				continue
			}
			et := g.Type().(*types.Pointer).Elem()
			p := st.allocFor(et)
			st.globals[g] = p.Obj
			if mt, ok := et.Underlying().(*types.Map); ok {
				id := st.newObj(&Obj{Kind: OMap, KeyT: mt.Key(), ValT: mt.Elem()})
				st.store(p, MapV{id})
			}
		}
	}
	e.pushFrame(st, fn, nil, nil)
	e.work = []*State{st}
	for len(e.work) > 0 {
		s := e.work[len(e.work)-1]
		e.work = e.work[:len(e.work)-1]
		if time.Since(lastProgress).Seconds() > 10 && e.cfg.Verbose >= 1 {
			lastProgress = time.Now()
			fmt.Fprintf(os.Stderr, "  ... %s: paths=%d queue=%d solver=%.1fs q=%d/%d/%d wall=%.0fs\n", e.res.Name, e.res.Paths, len(e.work), e.solver.Time.Seconds(), e.solver.NUnsat, e.solver.NSat, e.solver.NUnknown, time.Since(e.start).Seconds())
		}
		if e.res.Paths >= e.cfg.MaxPaths || time.Since(e.start).Seconds() > e.cfg.MaxSeconds {
			e.res.Aborts = append(e.res.Aborts, fmt.Sprintf("budget exhausted: paths=%d, %d states left", e.res.Paths, len(e.work)+1))
			break
		}
		e.runState(s)
	}
	r := e.res
	r.Queries = [3]int{e.solver.NUnsat - q0[0], e.solver.NSat - q0[1], e.solver.NUnknown - q0[2]}
	r.SolverS = (e.solver.Time - t0).Seconds()
	r.WallS = time.Since(e.start).Seconds()
	for k := range e.encoded {
		r.Encoded = append(r.Encoded, k)
	}
	for k := range e.stubs {
		r.Stubs = append(r.Stubs, k)
	}
	for k := range e.unknownCallees {
		r.Degraded = append(r.Degraded, k)
	}
	return r
}

func (e *Engine) runState(st *State) {
	for {
		if len(st.frames) == 0 {
			e.endPath(st, PathEnd{Kind: "return"})
			return
		}
		st.steps++
		st.sub = 0
		if st.steps > e.cfg.MaxSteps && st.steps > st.maxSteps {
			e.endPath(st, PathEnd{Kind: "budget", Msg: fmt.Sprintf("instruction budget %d exceeded at %s", e.cfg.MaxSteps, posOf(st, e))})
			return
		}
		if st.steps&0x3ff == 0 && time.Since(e.start).Seconds() > e.cfg.MaxSeconds {
			e.res.Aborts = append(e.res.Aborts, "time budget exhausted mid-path")
			e.work = nil
			return
		}
		sig := e.stepCatch(st)
		if sig == nil {
			st.seq++
			continue
		}
		switch s := sig.(type) {
		case retrySignal:
			continue
		case forkSignal:
			if !e.fork(st, s.cond) {
				return
			}
		case goPanic:
			e.endPath(st, PathEnd{Kind: "panic", Msg: s.kind + ": " + s.msg})
			return
		case abortSignal:
			e.endPath(st, PathEnd{Kind: "abort", Msg: s.reason})
			return
		case killSignal:
			e.endPath(st, PathEnd{Kind: "kill", Msg: s.reason})
			return
		default:
			panic(sig)
		}
	}
}

func (e *Engine) stepCatch(st *State) (sig interface{}) {
	defer func() {
		if r := recover(); r != nil {
			switch r.(type) {
			case forkSignal, goPanic, abortSignal, killSignal, retrySignal:
				sig = r
			default:
				// an engine-level type confusion (e.g. a modelled value reaching unmodelled library
				// code) ends the path as inconclusive instead of crashing the run
				if e.cfg.Verbose >= 2 {
					fmt.Fprintf(os.Stderr, "ENGINE PANIC at %s: %v\n  stack: %s\n", posOf(st, e), r, e.stackTrace(st))
				}
				sig = abortSignal{fmt.Sprintf("engine cannot execute this code: %v", r)}
			}
		}
	}()
	e.step(st)
	return nil
}

// fork splits st on cond. Returns false if st died.
func (e *Engine) fork(st *State, c *Term) bool {
	r1 := e.solver.Check(st.pc, c, e.cfg.BranchTimeoutMs)
	var r2 Result
	if r1 == Unsat {
		r2 = Sat // pc is satisfiable by invariant
	} else {
		r2 = e.solver.Check(st.pc, Not(c), e.cfg.BranchTimeoutMs)
	}
	if r1 == Unknown || r2 == Unknown {
		st.unchecked = true
		e.res.Unchecked++
		if slowLog {
			fmt.Fprintf(os.Stderr, "  unknown branch at %s: %s\n", posOf(st, e), trunc(c.String(), 300))
			slowDump++
			if slowDump <= 3 {
				writeFile(fmt.Sprintf("/verif/tmp/slow_%d.smt2", slowDump), Script(append(append([]*Term(nil), st.pc...), c), "; slow branch query\n"))
			}
		}
	}
	switch {
	case r1 != Unsat && r2 != Unsat:
		forkSites[posOf(st, e)]++
		st2 := st.clone(e.nextState)
		e.nextState++
		st.epoch = newEpoch()
		st2.epoch = newEpoch()
		st.assume(c)
		st2.assume(Not(c))
		e.work = append(e.work, st2)
		return true
	case r1 != Unsat:
		st.decided[c.ID] = true
		st.noteEq(c)
		return true
	case r2 != Unsat:
		st.decided[c.ID] = false
		return true
	}
	e.endPath(st, PathEnd{Kind: "kill", Msg: "infeasible"})
	return false
}

func (e *Engine) log(lvl int, f string, a ...interface{}) {
	if e.cfg.Verbose >= lvl {
		fmt.Fprintf(os.Stderr, f+"\n", a...)
	}
}

// ---------- instruction step

func (e *Engine) step(st *State) {
	fr := st.top()
	if fr.runningDefers {
		e.continueDefers(st, fr)
		return
	}
	in := fr.block.Instrs[fr.ip]
	if e.cfg.Verbose >= 4 {
		e.log(4, "[%d] %s: %s", st.id, fr.fn.Name(), in.String())
	}
	switch x := in.(type) {
	case *ssa.Alloc:
		et := x.Type().(*types.Pointer).Elem()
		p := st.allocFor(et)
		if x.Comment != "" {
			st.wobj(p.Obj).Name = x.Comment
		}
		e.set(fr, x, p)
	case *ssa.Phi:
		// evaluate all phis of the block simultaneously
		var idx int = -1
		for i, p := range fr.block.Preds {
			if p == fr.prev {
				idx = i
				break
			}
		}
		if idx < 0 {
			panic(abortSignal{"phi without predecessor"})
		}
		j := fr.ip
		var vals []Value
		for ; j < len(fr.block.Instrs); j++ {
			ph, ok := fr.block.Instrs[j].(*ssa.Phi)
			if !ok {
				break
			}
			vals = append(vals, e.val(st, fr, ph.Edges[idx]))
		}
		for k, v := range vals {
			e.set(fr, fr.block.Instrs[fr.ip+k].(*ssa.Phi), v)
		}
		fr.ip = j
		return
	case *ssa.BinOp:
		a := e.val(st, fr, x.X)
		b := e.val(st, fr, x.Y)
		e.set(fr, x, e.binop(st, x.Op, a, b, x.X.Type(), x.Y.Type()))
	case *ssa.UnOp:
		e.set(fr, x, e.unop(st, fr, x))
	case *ssa.Store:
		p := e.val(st, fr, x.Addr).(Ptr)
		v := e.val(st, fr, x.Val)
		e.recordAccess(st, p, true)
		st.store(p, v)
	case *ssa.FieldAddr:
		p := e.val(st, fr, x.X).(Ptr)
		if p.Obj == 0 {
			panic(goPanic{"nil-deref", "nil pointer dereference (field address)"})
		}
		stt := x.X.Type().Underlying().(*types.Pointer).Elem().Underlying().(*types.Struct)
		np := Ptr{Obj: p.Obj, Cell: p.Cell, Path: append(append([]int(nil), p.Path...), x.Field)}
		np = st.hop(np, stt.Field(x.Field).Type())
		e.set(fr, x, np)
	case *ssa.Field:
		s := e.val(st, fr, x.X).(Struct)
		e.set(fr, x, s.F[x.Field])
	case *ssa.IndexAddr:
		e.set(fr, x, e.indexAddr(st, fr, x))
	case *ssa.Index:
		e.set(fr, x, e.index(st, fr, x))
	case *ssa.Slice:
		e.set(fr, x, e.sliceOp(st, fr, x))
	case *ssa.MakeSlice:
		e.set(fr, x, e.makeSlice(st, x.Type(), e.val(st, fr, x.Len), e.val(st, fr, x.Cap)))
	case *ssa.MakeMap:
		mt := x.Type().Underlying().(*types.Map)
		id := st.newObj(&Obj{Kind: OMap, KeyT: mt.Key(), ValT: mt.Elem()})
		e.set(fr, x, MapV{id})
	case *ssa.MapUpdate:
		m := e.val(st, fr, x.Map).(MapV)
		if st.sharedMax != 0 && m.Obj != 0 && st.isShared(m.Obj) && st.onceDepth == 0 && st.lockDepth == 0 {
			e.sharedWrite(st, m.Obj, "map update")
		}
		e.mapUpdate(st, m, e.val(st, fr, x.Key), e.val(st, fr, x.Value))
	case *ssa.Lookup:
		e.set(fr, x, e.lookup(st, fr, x))
	case *ssa.MakeInterface:
		e.set(fr, x, Iface{T: x.X.Type(), V: e.val(st, fr, x.X)})
	case *ssa.ChangeInterface:
		e.set(fr, x, e.val(st, fr, x.X))
	case *ssa.ChangeType:
		e.set(fr, x, e.val(st, fr, x.X))
	case *ssa.Convert:
		e.set(fr, x, e.convert(st, e.val(st, fr, x.X), x.X.Type(), x.Type()))
	case *ssa.MultiConvert:
		e.set(fr, x, e.convert(st, e.val(st, fr, x.X), x.X.Type(), x.Type()))
	case *ssa.SliceToArrayPointer:
		s := e.val(st, fr, x.X).(Slice)
		at := x.Type().(*types.Pointer).Elem().Underlying().(*types.Array)
		if !st.decide(BVUle(U64(uint64(at.Len())), s.Len)) {
			panic(goPanic{"bounds", "slice to array pointer: length too short"})
		}
		if s.Obj == 0 {
			e.set(fr, x, Ptr{})
		} else if s.Off.IsConst() && s.Off.C == 0 {
			e.set(fr, x, Ptr{Obj: s.Obj, Cell: -1})
		} else {
			panic(abortSignal{"slice to array pointer at non-zero offset"})
		}
	case *ssa.TypeAssert:
		e.set(fr, x, e.typeAssert(st, fr, x))
	case *ssa.Extract:
		t := e.val(st, fr, x.Tuple).(Tuple)
		e.set(fr, x, t.V[x.Index])
	case *ssa.MakeClosure:
		binds := make([]Value, len(x.Bindings))
		for i, b := range x.Bindings {
			binds[i] = e.val(st, fr, b)
		}
		e.set(fr, x, Closure{Fn: x.Fn.(*ssa.Function), Binds: binds})
	case *ssa.Call:
		e.call(st, fr, x)
		return
	case *ssa.Defer:
		fnv, args := e.calleeAndArgs(st, fr, x)
		fr.defers = append(fr.defers, Deferred{fn: fnv, args: args})
	case *ssa.RunDefers:
		if len(fr.defers) > 0 {
			fr.runningDefers = true
			return
		}
	case *ssa.Go:
		panic(abortSignal{"go statement"})
	case *ssa.Select:
		e.set(fr, x, e.selectOp(st, fr, x))
	case *ssa.Range:
		e.set(fr, x, e.rangeOp(st, fr, x))
	case *ssa.Next:
		e.set(fr, x, e.nextOp(st, fr, x))
	case *ssa.Send:
		panic(abortSignal{"channel send"})
	case *ssa.MakeChan:
		e.set(fr, x, Opaque{Tag: "chan"})
	case *ssa.DebugRef:
	case *ssa.If:
		c := e.val(st, fr, x.Cond).(Bool).T
		var taken bool
		if c.IsConst() {
			taken = c.C == 1
		} else {
			if _, known := st.decided[condKey(c)]; !known {
				fr.visits[fr.block.Index]++
				if fr.visits[fr.block.Index] > st.unwind {
					fr.visits[fr.block.Index] = 0
					panic(unwindSignalFor(st, e))
				}
			}
			taken = st.decide(c)
		}
		fr.prev = fr.block
		if taken {
			fr.block = fr.block.Succs[0]
		} else {
			fr.block = fr.block.Succs[1]
		}
		fr.ip = 0
		return
	case *ssa.Jump:
		fr.prev = fr.block
		fr.block = fr.block.Succs[0]
		fr.ip = 0
		return
	case *ssa.Return:
		res := make([]Value, len(x.Results))
		for i, r := range x.Results {
			res[i] = e.val(st, fr, r)
		}
		e.popFrame(st, res)
		return
	case *ssa.Panic:
		v := e.val(st, fr, x.X)
		msg := "panic"
		if i, ok := v.(Iface); ok && i.T != nil {
			msg = "panic(" + i.T.String() + ")"
			if s, ok := i.V.(Slice); ok && isStringType(i.T) {
				if str, ok := e.concreteString(st, s); ok {
					msg = "panic: " + str
				}
			}
		}
		panic(goPanic{"explicit", msg})
	default:
		panic(abortSignal{fmt.Sprintf("unsupported instruction %T: %s", in, in)})
	}
	fr.ip++
}

func condKey(c *Term) int {
	if c.Op == "not" {
		return c.Args[0].ID
	}
	return c.ID
}

var lastProgress = time.Now()
var forkSites = map[string]int{}
var slowDump int

func unwindSignalFor(st *State, e *Engine) interface{} {
	return killSignal{"UNWIND " + posOf(st, e)}
}

func (e *Engine) continueDefers(st *State, fr *Frame) {
	if len(fr.defers) == 0 {
		fr.runningDefers = false
		fr.ip++ // past RunDefers
		return
	}
	d := fr.defers[len(fr.defers)-1]
	fr.defers = fr.defers[:len(fr.defers)-1]
	e.invokeValue(st, d.fn, d.args, nil, true)
}

// ---------- calls

func (e *Engine) calleeAndArgs(st *State, fr *Frame, ci ssa.CallInstruction) (Value, []Value) {
	c := ci.Common()
	var args []Value
	if c.IsInvoke() {
		recv := e.val(st, fr, c.Value)
		ifc, ok := recv.(Iface)
		if !ok || ifc.T == nil {
			panic(goPanic{"nil-deref", "method call on nil interface " + c.Method.Name()})
		}
		fn := e.lookupMethod(ifc.T, c.Method)
		if fn == nil {
			panic(abortSignal{fmt.Sprintf("no method %s on %s", c.Method.Name(), ifc.T)})
		}
		args = append(args, ifc.V)
		for _, a := range c.Args {
			args = append(args, e.val(st, fr, a))
		}
		return Closure{Fn: fn}, args
	}
	fnv := e.val(st, fr, c.Value)
	for _, a := range c.Args {
		args = append(args, e.val(st, fr, a))
	}
	return fnv, args
}

func (e *Engine) lookupMethod(t types.Type, m *types.Func) *ssa.Function {
	if t == opaqueErrType {
		return nil
	}
	ms := e.prog.MethodSets.MethodSet(t)
	sel := ms.Lookup(m.Pkg(), m.Name())
	if sel == nil {
		// model types substituted for real ones: look up by name only
		for i := 0; i < ms.Len(); i++ {
			if ms.At(i).Obj().Name() == m.Name() {
				sel = ms.At(i)
				break
			}
		}
	}
	if sel == nil {
		return nil
	}
	return e.prog.MethodValue(sel)
}

func (e *Engine) call(st *State, fr *Frame, x *ssa.Call) {
	c := x.Common()
	if c.IsInvoke() {
		recv := e.val(st, fr, c.Value)
		if ifc, ok := recv.(Iface); ok && ifc.T == opaqueErrType {
			// error.Error() on an opaque error
			if c.Method.Name() == "Error" {
				e.set(fr, x, st.strConst("<error>"))
				fr.ip++
				return
			}
		}
	}
	fnv, args := e.calleeAndArgs(st, fr, x)
	e.invokeValue(st, fnv, args, x, false)
}

// invokeValue calls a function value. If ci is nil the result is discarded (deferred call).
func (e *Engine) invokeValue(st *State, fnv Value, args []Value, ci ssa.CallInstruction, deferred bool) {
	cl, ok := fnv.(Closure)
	if !ok || (cl.Fn == nil && cl.Nat == "") {
		panic(goPanic{"nil-deref", "call of nil function"})
	}
	fr := st.top()
	finish := func(r Value) {
		if deferred {
			return
		}
		if v, ok := ci.(ssa.Value); ok {
			e.set(fr, v, r)
		}
		fr.ip++
	}
	if cl.Nat != "" {
		r := e.builtin(st, cl.Nat, args, ci)
		finish(r)
		return
	}
	fn := cl.Fn
	name := fn.String()
	if fn.Origin() != nil {
		name = fn.Origin().String()
	}
	nat, ok := e.natives[name]
	if !ok && fn.Pkg != nil && fn.Signature.Recv() == nil && strings.HasPrefix(fn.Name(), "v") && e.allow(fn.Pkg.Pkg.Path()) {
		nat, ok = harnessAPI[fn.Name()]
		if ok {
			r := nat(e, st, args, ci)
			if _, pushed := r.(pushedFrame); pushed {
				return
			}
			finish(r)
			return
		}
	}
	if ok {
		e.stubs[name] = true
		r := nat(e, st, args, ci)
		if _, again := r.(pushedFrame); again {
			// the native pushed a frame; its result is delivered by popFrame
			if deferred {
				st.top().discard = true
			}
			return
		}
		finish(r)
		return
	}
	if strings.HasSuffix(name, ".init") && (fn.Pkg == nil || !e.allow(fn.Pkg.Pkg.Path())) && fn.Signature.Recv() == nil {
		finish(nil)
		return
	}
	if fn.Name() == "init" && fn.Pkg != nil && e.allow(fn.Pkg.Pkg.Path()) && fn.Signature.Recv() == nil && fn.Parent() == nil {
		if st.inited[fn.Pkg] && fn == fn.Pkg.Func("init") {
			// already run (or running)
		}
	}
	if m, ok := e.subst[name]; ok {
		e.stubs[name] = true
		fn = m
	}
	for g := range st.groups {
		if m, ok := e.groupSubst[g][name]; ok {
			if m == nil {
				fn = cl.Fn // real body within this group
				delete(e.stubs, name)
			} else {
				e.stubs[name] = true
				fn = m
			}
		}
	}
	if fn.Blocks == nil {
		if fn.Synthetic != "" && strings.Contains(fn.Synthetic, "wrapper") {
			panic(abortSignal{"wrapper without body: " + name})
		}
		// unknown external: havoc
		e.unknownCallees[name] = true
		st.degraded = true
		r := e.havocResult(st, fn.Signature.Results(), name)
		finish(r)
		return
	}
	if len(cl.Binds) != len(fn.FreeVars) {
		panic(abortSignal{"closure binding mismatch for " + name})
	}
	if len(args) != len(fn.Params) {
		// variadic model mismatch etc.
		panic(abortSignal{fmt.Sprintf("arity mismatch calling %s (%d vs %d)", name, len(args), len(fn.Params))})
	}
	e.noteCall(st, fn)
	e.pushFrame(st, fn, args, cl.Binds)
	if deferred {
		st.top().discard = true
	}
}

type pushedFrame struct{}

func (e *Engine) noteCall(st *State, fn *ssa.Function) {}

func (e *Engine) havocResult(st *State, res *types.Tuple, name string) Value {
	mk := func(t types.Type) Value { return e.havoc(st, t, name) }
	switch res.Len() {
	case 0:
		return nil
	case 1:
		return mk(res.At(0).Type())
	}
	vs := make([]Value, res.Len())
	for i := range vs {
		vs[i] = mk(res.At(i).Type())
	}
	return Tuple{vs}
}

func (e *Engine) havoc(st *State, t types.Type, name string) Value {
	if w, _, ok := intWidth(t); ok {
		return BV{st.fresh("havoc", SBV(w))}
	}
	if isBoolType(t) {
		return Bool{st.fresh("havoc", SBool)}
	}
	if isErrorIface(t) {
		if st.decide(st.fresh("havoc_err", SBool)) {
			return e.opaqueError(st, "havoc:"+name)
		}
		return Iface{}
	}
	switch u := t.Underlying().(type) {
	case *types.Slice:
		if isByteType(u.Elem()) {
			ln := st.fresh("havoc_len", SBV(64))
			st.addPC(BVUle(ln, U64(1<<16)))
			id := st.newBytes(st.fresh("havoc_arr", SArr), ln)
			return Slice{Obj: id, Off: U64(0), Len: ln, Cap: ln}
		}
	}
	return Opaque{Tag: "havoc:" + name}
}

func (e *Engine) concreteString(st *State, s Slice) (string, bool) {
	if s.Obj == 0 {
		return "", true
	}
	if !s.Len.IsConst() || !s.Off.IsConst() || s.Len.C > 4096 {
		return "", false
	}
	o := st.obj(s.Obj)
	b := make([]byte, s.Len.C)
	for i := range b {
		v := Select(o.Arr, U64(s.Off.C+uint64(i)))
		if !v.IsConst() {
			return "", false
		}
		b[i] = byte(v.C)
	}
	return string(b), true
}

// ---------- unary / binary

func (e *Engine) unop(st *State, fr *Frame, x *ssa.UnOp) Value {
	v := e.val(st, fr, x.X)
	switch x.Op {
	case token.MUL:
		p, ok := v.(Ptr)
		if !ok {
			panic(abortSignal{fmt.Sprintf("deref of %T", v)})
		}
		e.recordAccess(st, p, false)
		return st.load(p)
	case token.NOT:
		return Bool{Not(v.(Bool).T)}
	case token.SUB:
		if iv, ok := v.(IntV); ok {
			return IntV{IntOp("-", IntC64(0), iv.T)}
		}
		return BV{BVNeg(v.(BV).T)}
	case token.XOR:
		return BV{BVNot(v.(BV).T)}
	case token.ARROW:
		panic(abortSignal{"channel receive"})
	}
	panic(abortSignal{"unop " + x.Op.String()})
}

func (e *Engine) binop(st *State, op token.Token, a, b Value, ta, tb types.Type) Value {
	switch x := a.(type) {
	case IntV:
		return e.intBinop(st, op, x, b, ta, tb)
	case BV:
		if yb, ok := b.(IntV); ok {
			return e.intBinop(st, op, IntV{e.bvToInt(x.T, ta)}, yb, ta, tb)
		}
		y := b.(BV)
		_, signed, _ := intWidth(ta)
		w := x.T.S.W
		switch op {
		case token.ADD:
			return BV{BVAdd(x.T, y.T)}
		case token.SUB:
			return BV{BVSub(x.T, y.T)}
		case token.MUL:
			return BV{BVMul(x.T, y.T)}
		case token.QUO, token.REM:
			if !st.decide(Not(Eq(y.T, BVC(w, 0)))) {
				panic(goPanic{"divide", "integer divide by zero"})
			}
			switch {
			case op == token.QUO && signed:
				return BV{BVSdiv(x.T, y.T)}
			case op == token.QUO:
				return BV{BVUdiv(x.T, y.T)}
			case signed:
				return BV{BVSrem(x.T, y.T)}
			default:
				return BV{BVUrem(x.T, y.T)}
			}
		case token.AND:
			return BV{BVAnd(x.T, y.T)}
		case token.OR:
			return BV{BVOr(x.T, y.T)}
		case token.XOR:
			return BV{BVXor(x.T, y.T)}
		case token.AND_NOT:
			return BV{BVAnd(x.T, BVNot(y.T))}
		case token.SHL, token.SHR:
			cnt := y.T
			yw := cnt.S.W
			var big *Term = tFalse
			if yw > w {
				big = BVUle(BVC(yw, uint64(w)), cnt)
				cnt = Extract(cnt, w-1, 0)
			} else if yw < w {
				cnt = ZExt(cnt, w)
			}
			var r *Term
			switch {
			case op == token.SHL:
				r = Ite(big, BVC(w, 0), BVShl(x.T, cnt))
			case signed:
				r = Ite(big, BVAshr(x.T, BVC(w, uint64(w-1))), BVAshr(x.T, cnt))
			default:
				r = Ite(big, BVC(w, 0), BVLshr(x.T, cnt))
			}
			return BV{r}
		case token.EQL:
			return Bool{Eq(x.T, y.T)}
		case token.NEQ:
			return Bool{Not(Eq(x.T, y.T))}
		case token.LSS:
			if signed {
				return Bool{BVSlt(x.T, y.T)}
			}
			return Bool{BVUlt(x.T, y.T)}
		case token.LEQ:
			if signed {
				return Bool{BVSle(x.T, y.T)}
			}
			return Bool{BVUle(x.T, y.T)}
		case token.GTR:
			if signed {
				return Bool{BVSlt(y.T, x.T)}
			}
			return Bool{BVUlt(y.T, x.T)}
		case token.GEQ:
			if signed {
				return Bool{BVSle(y.T, x.T)}
			}
			return Bool{BVUle(y.T, x.T)}
		}
	case Bool:
		y := b.(Bool)
		switch op {
		case token.EQL:
			return Bool{Eq(x.T, y.T)}
		case token.NEQ:
			return Bool{Not(Eq(x.T, y.T))}
		case token.AND, token.LAND:
			return Bool{And(x.T, y.T)}
		case token.OR, token.LOR:
			return Bool{Or(x.T, y.T)}
		}
	case Slice:
		y, ok := b.(Slice)
		if !ok {
			break
		}
		if isStringType(ta) {
			switch op {
			case token.ADD:
				return e.concat(st, x, y)
			case token.EQL:
				return Bool{e.bytesEq(st, x, y)}
			case token.NEQ:
				return Bool{Not(e.bytesEq(st, x, y))}
			case token.LSS, token.LEQ, token.GTR, token.GEQ:
				panic(abortSignal{"string ordering"})
			}
		}
		// slice vs nil
		switch op {
		case token.EQL:
			return Bool{BoolC(x.Obj == 0 && y.Obj == 0)}
		case token.NEQ:
			return Bool{BoolC(!(x.Obj == 0 && y.Obj == 0))}
		}
	case Ptr:
		y, ok := b.(Ptr)
		if !ok {
			break
		}
		eq := ptrEq(x, y)
		if op == token.EQL {
			return Bool{eq}
		}
		if op == token.NEQ {
			return Bool{Not(eq)}
		}
	case Iface:
		y, ok := b.(Iface)
		if !ok {
			break
		}
		eq := e.ifaceEq(st, x, y)
		if op == token.EQL {
			return Bool{eq}
		}
		if op == token.NEQ {
			return Bool{Not(eq)}
		}
	case MapV:
		y := b.(MapV)
		eq := BoolC(x.Obj == y.Obj)
		if op == token.EQL {
			return Bool{eq}
		}
		return Bool{Not(eq)}
	case Closure:
		y := b.(Closure)
		eq := BoolC(x.Fn == y.Fn && x.Nat == y.Nat && len(x.Binds) == 0 && len(y.Binds) == 0)
		if op == token.EQL {
			return Bool{eq}
		}
		return Bool{Not(eq)}
	case Struct:
		y := b.(Struct)
		eq := e.valueEq(st, x, y)
		if op == token.EQL {
			return Bool{eq}
		}
		return Bool{Not(eq)}
	case ArrayV:
		y := b.(ArrayV)
		eq := e.valueEq(st, x, y)
		if op == token.EQL {
			return Bool{eq}
		}
		return Bool{Not(eq)}
	case Abstract:
		y := b.(Abstract)
		if op == token.EQL {
			return Bool{Eq(x.T, y.T)}
		}
		return Bool{Not(Eq(x.T, y.T))}
	case Opaque:
		if y, ok := b.(Opaque); ok {
			eq := BoolC(x.Tag == y.Tag && x.ID == y.ID)
			if op == token.EQL {
				return Bool{eq}
			}
			return Bool{Not(eq)}
		}
	}
	panic(abortSignal{fmt.Sprintf("binop %s on %T, %T", op, a, b)})
}

func ptrEq(x, y Ptr) *Term {
	if x.Obj != y.Obj || x.Cell != y.Cell || len(x.Path) != len(y.Path) {
		return tFalse
	}
	for i := range x.Path {
		if x.Path[i] != y.Path[i] {
			return tFalse
		}
	}
	if x.Idx != nil && y.Idx != nil {
		return Eq(x.Idx, y.Idx)
	}
	if (x.Idx == nil) != (y.Idx == nil) {
		return tFalse
	}
	return tTrue
}

func (e *Engine) ifaceEq(st *State, x, y Iface) *Term {
	if x.T == nil || y.T == nil {
		return BoolC(x.T == nil && y.T == nil)
	}
	if x.T != y.T && !types.Identical(x.T, y.T) {
		return tFalse
	}
	return e.valueEq(st, x.V, y.V)
}

func (e *Engine) valueEq(st *State, a, b Value) *Term {
	switch x := a.(type) {
	case BV:
		return Eq(x.T, b.(BV).T)
	case Bool:
		return Eq(x.T, b.(Bool).T)
	case Ptr:
		return ptrEq(x, b.(Ptr))
	case Slice: // string
		return e.bytesEq(st, x, b.(Slice))
	case Struct:
		y := b.(Struct)
		var cs []*Term
		for i := range x.F {
			cs = append(cs, e.valueEq(st, x.F[i], y.F[i]))
		}
		return And(cs...)
	case ArrayV:
		y := b.(ArrayV)
		ox, oy := st.obj(x.Obj), st.obj(y.Obj)
		if ox.Kind == OBytes {
			return e.bytesEq(st, Slice{Obj: x.Obj, Off: U64(0), Len: ox.Len, Cap: ox.Len}, Slice{Obj: y.Obj, Off: U64(0), Len: oy.Len, Cap: oy.Len})
		}
		var cs []*Term
		for i := range ox.Cells {
			cs = append(cs, e.valueEq(st, ox.Cells[i], oy.Cells[i]))
		}
		return And(cs...)
	case Iface:
		return e.ifaceEq(st, x, b.(Iface))
	case Opaque:
		y, ok := b.(Opaque)
		return BoolC(ok && x.Tag == y.Tag && x.ID == y.ID && x.X == y.X)
	case Abstract:
		return Eq(x.T, b.(Abstract).T)
	case MapV:
		return BoolC(x.Obj == b.(MapV).Obj)
	case nil:
		return BoolC(b == nil)
	}
	panic(abortSignal{fmt.Sprintf("equality on %T", a)})
}

// ---------- conversions

func (e *Engine) convert(st *State, v Value, from, to types.Type) Value {
	if iv, ok := v.(IntV); ok {
		return e.intConvert(st, iv, from, to)
	}
	fw, fsigned, fint := intWidth(from)
	tw, _, tint := intWidth(to)
	if fint && tint {
		t := v.(BV).T
		if e.intMode && !isByteType(to) && !isByteType(from) {
			return IntV{e.bvToInt(t, from)}
		}
		if e.intMode && isByteType(from) && !isByteType(to) {
			return IntV{e.bvToInt(t, from)}
		}
		switch {
		case tw == fw:
			return v
		case tw < fw:
			return BV{Extract(t, tw-1, 0)}
		case fsigned:
			return BV{SExt(t, tw)}
		default:
			return BV{ZExt(t, tw)}
		}
	}
	fs, ts := isStringType(from), isStringType(to)
	_, fsl := from.Underlying().(*types.Slice)
	_, tsl := to.Underlying().(*types.Slice)
	switch {
	case fs && tsl, fsl && ts:
		s := v.(Slice)
		if fsl && s.Obj == 0 {
			return Slice{Obj: 0, Off: U64(0), Len: U64(0), Cap: U64(0)}
		}
		return e.copySlice(st, s, fs && tsl)
	case fs && ts, fsl && tsl:
		return v
	case fint && ts:
		// string(rune): only ASCII constants supported
		t := v.(BV).T
		if t.IsConst() && t.C < 128 {
			return st.strConst(string(rune(t.C)))
		}
		panic(abortSignal{"string(rune) of symbolic value"})
	}
	if _, ok := to.Underlying().(*types.Pointer); ok {
		return v
	}
	if b, ok := to.Underlying().(*types.Basic); ok && b.Kind() == types.UnsafePointer {
		panic(abortSignal{"unsafe.Pointer conversion"})
	}
	panic(abortSignal{fmt.Sprintf("convert %s -> %s", from, to)})
}

// copySlice makes a fresh object with the bytes of s.
func (e *Engine) copySlice(st *State, s Slice, mutable bool) Value {
	if s.Obj == 0 {
		if mutable {
			// []byte("") is non-nil, empty
			id := st.newBytes(ZeroArr(), U64(0))
			return Slice{Obj: id, Off: U64(0), Len: U64(0), Cap: U64(0)}
		}
		return Slice{Obj: 0, Off: U64(0), Len: U64(0), Cap: U64(0)}
	}
	src := st.obj(s.Obj)
	arr := copyInto(ZeroArr(), U64(0), src.Arr, s.Off, s.Len)
	id := st.newBytes(arr, s.Len)
	e.noteAlloc(st, s.Len, 1)
	return Slice{Obj: id, Off: U64(0), Len: s.Len, Cap: s.Len}
}

// copyInto returns dst with dst[doff:doff+n] = src[soff:soff+n].
func copyInto(dst *Term, doff *Term, src *Term, soff *Term, n *Term) *Term {
	if n.IsConst() && n.C <= 512 {
		r := dst
		for i := uint64(0); i < n.C; i++ {
			r = Store(r, BVAdd(doff, U64(i)), Select(src, BVAdd(soff, U64(i))))
		}
		return r
	}
	if n.IsConst() && n.C == 0 {
		return dst
	}
	i := BoundVar("i", SBV(64))
	in := And(BVUle(doff, i), BVUlt(BVSub(i, doff), n))
	body := Ite(in, Select(src, BVAdd(BVSub(i, doff), soff)), Select(dst, i))
	return Lambda(i, body)
}

func (e *Engine) concat(st *State, a, b Slice) Value {
	if a.Len.IsConst() && a.Len.C == 0 {
		return b
	}
	if b.Len.IsConst() && b.Len.C == 0 {
		return a
	}
	arr := ZeroArr()
	if a.Obj != 0 {
		arr = copyInto(arr, U64(0), st.obj(a.Obj).Arr, a.Off, a.Len)
	}
	if b.Obj != 0 {
		arr = copyInto(arr, a.Len, st.obj(b.Obj).Arr, b.Off, b.Len)
	}
	n := BVAdd(a.Len, b.Len)
	id := st.newBytes(arr, n)
	return Slice{Obj: id, Off: U64(0), Len: n, Cap: n}
}

// bytesEq builds the equality of two byte strings.
func (e *Engine) bytesEq(st *State, a, b Slice) *Term {
	lenEq := Eq(a.Len, b.Len)
	if lenEq.IsFalse() {
		return tFalse
	}
	if a.Obj == 0 || b.Obj == 0 {
		// a nil/empty slice equals any empty one
		return And(lenEq, Eq(a.Len, U64(0)))
	}
	aa, ba := st.obj(a.Obj).Arr, st.obj(b.Obj).Arr
	if a.Obj == b.Obj && a.Off == b.Off {
		return lenEq
	}
	// two complete hex strings are equal iff the bytes they encode are (hex is injective)
	if ha, hb := st.obj(a.Obj).HexSrc, st.obj(b.Obj).HexSrc; ha != nil && hb != nil && a.Obj != b.Obj &&
		a.Off.IsConst() && a.Off.C == 0 && b.Off.IsConst() && b.Off.C == 0 && a.Len == st.obj(a.Obj).Len && b.Len == st.obj(b.Obj).Len {
		ida := st.newBytes(ha.Arr, BVAdd(ha.Off, ha.Len))
		idb := st.newBytes(hb.Arr, BVAdd(hb.Off, hb.Len))
		return e.bytesEq(st, Slice{Obj: ida, Off: ha.Off, Len: ha.Len, Cap: ha.Len}, Slice{Obj: idb, Off: hb.Off, Len: hb.Len, Cap: hb.Len})
	}
	n := a.Len
	if !n.IsConst() && b.Len.IsConst() {
		n = b.Len
	}
	if n.IsConst() {
		if n.C > 4096 {
			panic(abortSignal{"byte comparison of very long concrete strings"})
		}
		if n.C == 0 {
			return lenEq
		}
		if n.C <= 600 {
			// one wide equality; adjacent extracts of hash outputs merge back into the whole term
			var x, y *Term
			for i := uint64(0); i < n.C; i++ {
				xa := Select(aa, BVAdd(a.Off, U64(i)))
				ya := Select(ba, BVAdd(b.Off, U64(i)))
				if x == nil {
					x, y = xa, ya
				} else {
					x, y = Concat(x, xa), Concat(y, ya)
				}
			}
			return And(lenEq, Eq(x, y))
		}
		cs := []*Term{lenEq}
		for i := uint64(0); i < n.C; i++ {
			cs = append(cs, Eq(Select(aa, BVAdd(a.Off, U64(i))), Select(ba, BVAdd(b.Off, U64(i)))))
		}
		return And(cs...)
	}
	// symbolic length with a small known upper bound: quantifier-free expansion
	if ub, ok := ubound(a.Len); ok && ub <= 96 {
		cs := []*Term{lenEq}
		for i := uint64(0); i < ub; i++ {
			ii := U64(i)
			cs = append(cs, Implies(BVUlt(ii, a.Len), Eq(Select(aa, BVAdd(a.Off, ii)), Select(ba, BVAdd(b.Off, ii)))))
		}
		return And(cs...)
	}
	// symbolic length: fresh boolean with both polarities axiomatised
	eq := st.fresh("beq", SBool)
	i := BoundVar("i", SBV(64))
	sa := Select(aa, BVAdd(a.Off, i))
	sb := Select(ba, BVAdd(b.Off, i))
	all := Forall([]*Term{i}, Implies(BVUlt(i, a.Len), Eq(sa, sb)))
	k := st.fresh("bneq_k", SBV(64))
	diff := And(BVUlt(k, a.Len), Not(Eq(Select(aa, BVAdd(a.Off, k)), Select(ba, BVAdd(b.Off, k)))))
	st.addPC(Implies(eq, And(lenEq, all)))
	st.addPC(Implies(Not(eq), Or(Not(lenEq), diff)))
	return eq
}

var varBounds = map[string]uint64{}
var uboundMemo = map[int]int64{}

// ubound returns an upper bound of a length term (unsigned), if one is syntactically evident.
// Subtractions are assumed not to wrap: the engine only builds length terms after checking bounds.
func ubound(t *Term) (uint64, bool) { return uboundX(t, false) }

// uboundSound never assumes anything about wrap-around (used for branch decisions).
func uboundSound(t *Term) (uint64, bool) { return uboundX(t, true) }

var uboundMemoS = map[int]int64{}

func uboundX(t *Term, sound bool) (uint64, bool) {
	uboundMemo := uboundMemo
	if sound {
		uboundMemo = uboundMemoS
	}
	if v, ok := uboundMemo[t.ID]; ok {
		if v < 0 {
			return 0, false
		}
		return uint64(v), true
	}
	r, ok := ubound1(t, sound)
	if ok && r < 1<<40 {
		uboundMemo[t.ID] = int64(r)
	} else {
		uboundMemo[t.ID] = -1
		ok = false
	}
	return r, ok
}

func ubound1(t *Term, sound bool) (uint64, bool) {
	ubound := func(x *Term) (uint64, bool) { return uboundX(x, sound) }
	switch t.Op {
	case "const":
		if t.Big != nil {
			return 0, false
		}
		return t.C, true
	case "var":
		if sound {
			return 0, false // the declared range lives in the path condition, not in the term
		}
		v, ok := varBounds[t.Name]
		return v, ok
	case "bvadd":
		a, ok1 := ubound(t.Args[0])
		if t.Args[1].IsConst() && t.Args[1].S.W == 64 && t.Args[1].SVal() < 0 {
			// x + (-k)
			if sound {
				return 0, false
			}
			return a, ok1
		}
		b, ok2 := ubound(t.Args[1])
		if ok1 && ok2 && t.S.W < 64 && a+b > mask(t.S.W) {
			return mask(t.S.W), true
		}
		return a + b, ok1 && ok2
	case "bvsub":
		if sound {
			return 0, false
		}
		return ubound(t.Args[0])
	case "ite":
		a, ok1 := ubound(t.Args[1])
		b, ok2 := ubound(t.Args[2])
		if a < b {
			a = b
		}
		return a, ok1 && ok2
	case "zext":
		if a, ok := ubound(t.Args[0]); ok {
			return a, true
		}
		if t.Args[0].S.W <= 8 {
			return mask(t.Args[0].S.W), true
		}
	case "bvand":
		if t.Args[1].IsConst() && t.Args[1].Big == nil {
			return t.Args[1].C, true
		}
	case "select":
		return 255, true
	case "bvlshr":
		if t.Args[1].IsConst() && t.Args[1].Big == nil && t.S.W <= 64 {
			k := t.Args[1].C
			if k >= uint64(t.S.W) {
				return 0, true
			}
			if a, ok := ubound(t.Args[0]); ok {
				return a >> k, true
			}
			return mask(t.S.W) >> k, true
		}
	case "extract":
		w := t.P1 - t.P2 + 1
		if w <= 16 {
			return mask(w), true
		}
	case "bvurem":
		if t.Args[1].IsConst() && t.Args[1].Big == nil && t.Args[1].C > 0 {
			return t.Args[1].C - 1, true
		}
	}
	if t.S.K == KBV && t.S.W <= 8 {
		return mask(t.S.W), true
	}
	return 0, false
}

// ---------- type assertions

func (e *Engine) typeAssert(st *State, fr *Frame, x *ssa.TypeAssert) Value {
	v := e.val(st, fr, x.X).(Iface)
	ok := false
	var res Value
	if v.T != nil {
		if types.IsInterface(x.AssertedType) {
			it := x.AssertedType.Underlying().(*types.Interface)
			if v.T == opaqueErrType {
				ok = isErrorIface(x.AssertedType) || it.NumMethods() == 0
			} else {
				// conversions written inside the models package are trusted (model types implement
				// only the methods that are used); everywhere else every method must exist by name
				inModels := fr.fn.Pkg != nil && fr.fn.Pkg == e.modelsPkg
				ok = types.Implements(v.T, it) || (inModels && isModelType(v.T)) || e.implementsByName(v.T, it)
			}
			res = v
		} else {
			ok = types.Identical(v.T, x.AssertedType)
			res = v.V
		}
	}
	if x.CommaOk {
		if !ok {
			res = st.zero(x.AssertedType)
		}
		return Tuple{[]Value{res, Bool{BoolC(ok)}}}
	}
	if !ok {
		panic(goPanic{"type-assert", fmt.Sprintf("interface conversion: %v is not %s", v.T, x.AssertedType)})
	}
	return res
}

func (e *Engine) implementsByName(t types.Type, it *types.Interface) bool {
	if !isModelType(t) {
		return false
	}
	ms := e.prog.MethodSets.MethodSet(t)
	for i := 0; i < it.NumMethods(); i++ {
		found := false
		for j := 0; j < ms.Len(); j++ {
			if ms.At(j).Obj().Name() == it.Method(i).Name() {
				found = true
				break
			}
		}
		if !found {
			return false
		}
	}
	return true
}

func isModelType(t types.Type) bool {
	if p, ok := t.(*types.Pointer); ok {
		t = p.Elem()
	}
	if n, ok := t.(*types.Named); ok && n.Obj().Pkg() != nil {
		return strings.HasPrefix(n.Obj().Pkg().Path(), "hmod/")
	}
	return false
}

func (e *Engine) selectOp(st *State, fr *Frame, x *ssa.Select) Value {
	// only the MaybeReadByte pattern: two receive cases on a closed channel, non-blocking or not
	c := st.fresh("select", SBool)
	idx := 1
	if st.decide(c) {
		idx = 0
	}
	vals := []Value{BV{I64(int64(idx))}, Bool{tFalse}}
	for _, s := range x.States {
		if s.Dir == types.RecvOnly {
			vals = append(vals, st.zero(s.Chan.Type().Underlying().(*types.Chan).Elem()))
		}
	}
	return Tuple{vals}
}

// recordAccess implements the shared-state write monitor of C17: between vSharedBegin and
// vSharedEnd every write to an object that existed at vSharedBegin, made outside a sync.Once
// body and without a held mutex, is a data race between two concurrent calls of the method.
func (e *Engine) recordAccess(st *State, p Ptr, write bool) {
	if st.released[p.Obj] && st.sharedMax != 0 {
		e.sharedWrite(st, p.Obj, "use of an object after it was handed back to a sync.Pool")
		return
	}
	if !write || st.sharedMax == 0 || p.Obj == 0 || !st.isShared(p.Obj) || st.onceDepth > 0 || st.lockDepth > 0 {
		return
	}
	e.sharedWrite(st, p.Obj, "store")
}

func (e *Engine) sharedWrite(st *State, obj int, what string) {
	// bookkeeping of the models (ghost maps) is not program state
	if fr := st.top(); fr.fn.Pkg != nil && fr.fn.Pkg == e.modelsPkg {
		return
	}
	// package initialisers (run on demand by the engine, before main by the Go runtime) are
	// sequenced before every goroutine
	for _, fr := range st.frames {
		if fr.fn.Pkg != nil && (fr.fn == fr.fn.Pkg.Func("init") || strings.HasPrefix(fr.fn.Name(), "init#")) {
			return
		}
	}
	pos := posOf(st, e)
	rec := AssertRec{Label: "shared-write@" + pos, Pos: pos, Kind: "race", Msg: what + " to shared state without synchronisation | " + e.stackTrace(st)}
	r, cex := e.model(st, nil, e.cfg.AssertTimeoutMs)
	if r == Unsat {
		return
	}
	rec.Result = "violated"
	if r != Sat {
		rec.Result = "unknown"
	}
	rec.Cex = cex
	for _, a := range e.res.Asserts {
		if a.Label == rec.Label {
			return
		}
	}
	e.res.Asserts = append(e.res.Asserts, rec)
}
