package main

// Integer mode (DESIGN 3.6): inside vIntMode(true) every Go integer other than a byte is a
// mathematical integer (SMT Int); each arithmetic operation adds the obligation that its exact
// result fits the Go type, so that wrap-around semantics and integer semantics coincide once the
// obligations are discharged. Masks are emitted as x - 2^k (x div 2^k); x | y is x + y under the
// obligation that the operands are bit-disjoint (y a multiple of 2^k, 0 <= x < 2^k).

import (
	"fmt"
	"go/token"
	"go/types"
	"math/big"
)

type intOblig struct {
	T    *Term // must hold
	Pos  string
	Kind string
}

var two = big.NewInt(2)

func pow2(k int) *big.Int { return new(big.Int).Lsh(big.NewInt(1), uint(k)) }

func typeRange(t types.Type) (lo, hi *big.Int) {
	w, signed, _ := intWidth(t)
	if signed {
		return new(big.Int).Neg(pow2(w - 1)), new(big.Int).Sub(pow2(w-1), big.NewInt(1))
	}
	return big.NewInt(0), new(big.Int).Sub(pow2(w), big.NewInt(1))
}

func (e *Engine) fits(st *State, r *Term, t types.Type, what string) {
	if r.IsConst() {
		return
	}
	lo, hi := typeRange(t)
	e.intObligs = append(e.intObligs, intOblig{T: And(IntCmp("<=", IntC(lo), r), IntCmp("<=", r, IntC(hi))), Pos: posOf(st, e), Kind: "fits-" + what})
}

// intOfByte turns a byte-valued bit-vector term into an Int term.
func (e *Engine) intOfByte(t *Term) *Term {
	if t.IsConst() {
		return IntC64(int64(t.C))
	}
	if t.Op == "int2bv" {
		return IntOp("mod", t.Args[0], IntC64(int64(1)<<uint(t.S.W)))
	}
	if v, ok := e.byteInts[t.ID]; ok {
		return v
	}
	v := Var(fmt.Sprintf("byte_int_%d", t.ID), SInt)
	e.byteInts[t.ID] = v
	e.intAxioms = append(e.intAxioms, And(IntCmp("<=", IntC64(0), v), IntCmp("<=", v, IntC(new(big.Int).Sub(pow2(t.S.W), big.NewInt(1))))))
	return v
}

func (e *Engine) bvToInt(t *Term, ty types.Type) *Term {
	_, signed, _ := intWidth(ty)
	if t.IsConst() {
		if signed {
			return IntC64(t.SVal())
		}
		return IntC(new(big.Int).SetUint64(t.C))
	}
	if signed && t.S.W > 8 {
		panic(abortSignal{"int mode: symbolic signed bit-vector to Int"})
	}
	return e.intOfByte(t)
}

func (e *Engine) intConvert(st *State, v IntV, from, to types.Type) Value {
	if isByteType(to) {
		// byte(x) = x mod 256, kept as a bit-vector so that byte arrays stay bit-vector arrays
		if v.T.IsConst() {
			m := new(big.Int).Mod(v.T.Big, big.NewInt(256))
			return BV{BVC(8, m.Uint64())}
		}
		return BV{TS.mk(&Term{Op: "int2bv", S: SBV(8), Args: []*Term{v.T}})}
	}
	if _, _, ok := intWidth(to); ok {
		// integer to integer: the value must fit the target type
		e.fits(st, v.T, to, "convert")
		return v
	}
	panic(abortSignal{fmt.Sprintf("int mode: convert %s -> %s", from, to)})
}

func constShift(b Value) (int, bool) {
	switch y := b.(type) {
	case IntV:
		if y.T.IsConst() && y.T.Big.IsInt64() {
			return int(y.T.Big.Int64()), true
		}
	case BV:
		if y.T.IsConst() {
			return int(y.T.C), true
		}
	}
	return 0, false
}

// trailing zero bits known syntactically (multiples of 2^k)
func knownTZ(t *Term) int {
	switch t.Op {
	case "const":
		if t.Big.Sign() == 0 {
			return 1 << 20
		}
		return int(new(big.Int).Abs(t.Big).TrailingZeroBits())
	case "i*":
		n := 0
		for _, a := range t.Args {
			n += knownTZ(a)
		}
		return n
	case "i+", "i-":
		m := 1 << 20
		for _, a := range t.Args {
			if k := knownTZ(a); k < m {
				m = k
			}
		}
		return m
	}
	return 0
}

func (e *Engine) intBinop(st *State, op token.Token, x IntV, b Value, ta, tb types.Type) Value {
	var y *Term
	switch v := b.(type) {
	case IntV:
		y = v.T
	case BV:
		y = e.bvToInt(v.T, tb)
	default:
		panic(abortSignal{fmt.Sprintf("int mode: binop with %T", b)})
	}
	a := x.T
	switch op {
	case token.ADD:
		r := IntOp("+", a, y)
		e.fits(st, r, ta, "add")
		return IntV{r}
	case token.SUB:
		r := IntOp("-", a, y)
		e.fits(st, r, ta, "sub")
		return IntV{r}
	case token.MUL:
		r := IntOp("*", a, y)
		e.fits(st, r, ta, "mul")
		return IntV{r}
	case token.SHL:
		k, ok := constShift(b)
		if !ok {
			panic(abortSignal{"int mode: shift by a symbolic amount"})
		}
		r := IntOp("*", a, IntC(pow2(k)))
		e.fits(st, r, ta, "shl")
		return IntV{r}
	case token.SHR:
		k, ok := constShift(b)
		if !ok {
			panic(abortSignal{"int mode: shift by a symbolic amount"})
		}
		return IntV{IntOp("div", a, IntC(pow2(k)))} // floor division = arithmetic shift
	case token.AND:
		// x & (2^k - 1)
		m := y
		if !m.IsConst() {
			m, a = a, y
		}
		if m.IsConst() {
			mp := new(big.Int).Add(m.Big, big.NewInt(1))
			if m.Big.Sign() >= 0 && mp.BitLen() > 0 && new(big.Int).And(mp, m.Big).Sign() == 0 {
				k := mp.BitLen() - 1
				p := IntC(pow2(k))
				return IntV{IntOp("-", a, IntOp("*", p, IntOp("div", a, p)))}
			}
		}
		panic(abortSignal{"int mode: & with a non-mask operand"})
	case token.OR:
		// bit-disjoint operands: hi is a multiple of 2^k, 0 <= lo < 2^k
		lo, hi := a, y
		k := knownTZ(hi)
		if k2 := knownTZ(lo); k2 > k {
			lo, hi, k = y, a, k2
		}
		if k == 0 || k >= 1<<20 {
			if k >= 1<<20 {
				return IntV{lo}
			}
			panic(abortSignal{"int mode: | of operands not known to be bit-disjoint"})
		}
		e.intObligs = append(e.intObligs, intOblig{T: And(IntCmp("<=", IntC64(0), lo), IntCmp("<", lo, IntC(pow2(k)))), Pos: posOf(st, e), Kind: "or-disjoint"})
		r := IntOp("+", lo, hi)
		return IntV{r}
	case token.EQL:
		return Bool{Eq(a, y)}
	case token.NEQ:
		return Bool{Not(Eq(a, y))}
	case token.LSS:
		return Bool{IntCmp("<", a, y)}
	case token.LEQ:
		return Bool{IntCmp("<=", a, y)}
	case token.GTR:
		return Bool{IntCmp(">", a, y)}
	case token.GEQ:
		return Bool{IntCmp(">=", a, y)}
	}
	panic(abortSignal{"int mode: unsupported operator " + op.String()})
}
