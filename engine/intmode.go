package main

import (
	"go/token"
	"go/types"
)

// Int mode (DESIGN 3.6) — implemented later.

func (e *Engine) intBinop(st *State, op token.Token, x IntV, b Value, ta, tb types.Type) Value {
	panic(abortSignal{"int mode not implemented"})
}

func (e *Engine) bvToInt(t *Term, ty types.Type) *Term {
	panic(abortSignal{"int mode not implemented"})
}

func (e *Engine) intConvert(st *State, v IntV, from, to types.Type) Value {
	panic(abortSignal{"int mode not implemented"})
}
