package main

import (
	"fmt"
	"go/types"

	"golang.org/x/tools/go/ssa"
)

func (e *Engine) registerIntrinsics() {
	n := e.natives
	n["bytes.Equal"] = func(e *Engine, st *State, a []Value, ci ssa.CallInstruction) Value {
		return Bool{e.bytesEq(st, a[0].(Slice), a[1].(Slice))}
	}
	n["crypto/subtle.ConstantTimeCompare"] = func(e *Engine, st *State, a []Value, ci ssa.CallInstruction) Value {
		eq := e.bytesEq(st, a[0].(Slice), a[1].(Slice))
		return BV{Ite(eq, I64(1), I64(0))}
	}
	opaqueErr := func(e *Engine, st *State, a []Value, ci ssa.CallInstruction) Value {
		return e.opaqueError(st, posOf(st, e))
	}
	n["fmt.Errorf"] = opaqueErr
	n["errors.New"] = opaqueErr
	n["fmt.Sprintf"] = func(e *Engine, st *State, a []Value, ci ssa.CallInstruction) Value {
		return st.strConst("<sprintf>")
	}
	n["fmt.Sprint"] = n["fmt.Sprintf"]
	n["fmt.Println"] = func(e *Engine, st *State, a []Value, ci ssa.CallInstruction) Value {
		return Tuple{[]Value{BV{I64(0)}, Iface{}}}
	}
	n["fmt.Printf"] = n["fmt.Println"]
	n["strconv.Itoa"] = func(e *Engine, st *State, a []Value, ci ssa.CallInstruction) Value {
		t := a[0].(BV).T
		if t.IsConst() {
			return st.strConst(fmt.Sprintf("%d", t.SVal()))
		}
		return st.strConst("<itoa>")
	}
	// sync.Pool: Get builds a new object with New (a recycled one has unspecified content anyway);
	// Put marks the object as no longer owned by the caller
	n["(*sync.Pool).Get"] = func(e *Engine, st *State, a []Value, ci ssa.CallInstruction) Value {
		p := a[0].(Ptr)
		pool := st.load(p).(Struct)
		var newFn Value
		for i := 0; i < len(pool.F); i++ {
			if c, ok := pool.F[i].(Closure); ok {
				newFn = c
			}
		}
		cl, ok := newFn.(Closure)
		if !ok || cl.Fn == nil {
			return Iface{}
		}
		// an ordinary call of New: its result becomes the result of Get
		e.pushFrame(st, cl.Fn, nil, cl.Binds)
		return pushedFrame{}
	}
	n["(*sync.Pool).Put"] = func(e *Engine, st *State, a []Value, ci ssa.CallInstruction) Value {
		if ifc, ok := a[1].(Iface); ok && ifc.T != nil {
			if p, ok := ifc.V.(Ptr); ok && p.Obj != 0 {
				if st.released == nil {
					st.released = map[int]bool{}
				}
				st.released[p.Obj] = true
				if p.Cell >= 0 {
					if av, ok := getPath(st.obj(p.Obj).Cells[p.Cell], p.Path).(ArrayV); ok {
						st.released[av.Obj] = true
					}
				}
			}
		}
		return nil
	}
	n["(*sync.Once).Do"] = func(e *Engine, st *State, a []Value, ci ssa.CallInstruction) Value {
		p := a[0].(Ptr)
		key := fmt.Sprintf("once:%d:%d:%v", p.Obj, p.Cell, p.Path)
		if st.onceDone[key] {
			return nil
		}
		st.onceDone[key] = true
		cl := a[1].(Closure)
		// advance the caller past the call before pushing, result is discarded
		fr := st.top()
		fr.ip++
		e.pushFrame(st, cl.Fn, nil, cl.Binds)
		st.top().discard = true
		st.top().native = "once"
		st.onceDepth++
		return pushedFrame{}
	}
	n["strings.Split"] = func(e *Engine, st *State, a []Value, ci ssa.CallInstruction) Value {
		s, sep := a[0].(Slice), a[1].(Slice)
		if !sep.Len.IsConst() || sep.Len.C != 1 {
			panic(abortSignal{"strings.Split: only 1-byte separators are modelled"})
		}
		sepb := Select(st.obj(sep.Obj).Arr, sep.Off)
		strT := ci.Common().Args[0].Type()
		if _, abs := st.ghost["abstractStrings"]; abs && !s.Len.IsConst() {
			// abstraction: one element (the content is not relied upon by the caller's assertions)
			e.stubs["strings.Split(abstracted)"] = true
			id := st.newCells(strT, []Value{s})
			return Slice{Obj: id, Off: U64(0), Len: U64(1), Cap: U64(1)}
		}
		n := st.concreteSize(s.Len, "strings.Split length")
		var arr *Term
		if s.Obj != 0 {
			arr = st.obj(s.Obj).Arr
		}
		var cuts []int
		for i := 0; i < n; i++ {
			if st.decide(Eq(Select(arr, BVAdd(s.Off, U64(uint64(i)))), sepb)) {
				cuts = append(cuts, i)
			}
		}
		var parts []Value
		start := 0
		mk := func(lo, hi int) Value {
			if s.Obj == 0 {
				return Slice{Obj: 0, Off: U64(0), Len: U64(0), Cap: U64(0)}
			}
			l := U64(uint64(hi - lo))
			return Slice{Obj: s.Obj, Off: BVAdd(s.Off, U64(uint64(lo))), Len: l, Cap: l}
		}
		for _, c := range cuts {
			parts = append(parts, mk(start, c))
			start = c + 1
		}
		parts = append(parts, mk(start, n))
		id := st.newCells(strT, parts)
		k := U64(uint64(len(parts)))
		return Slice{Obj: id, Off: U64(0), Len: k, Cap: k}
	}
	n["strings.Join"] = func(e *Engine, st *State, a []Value, ci ssa.CallInstruction) Value {
		el, sep := a[0].(Slice), a[1].(Slice)
		cnt := st.concreteSize(el.Len, "strings.Join count")
		if cnt == 0 {
			return Slice{Obj: 0, Off: U64(0), Len: U64(0), Cap: U64(0)}
		}
		off := st.concreteIndex(el.Off, 1<<20, "strings.Join")
		o := st.obj(el.Obj)
		var res Value = o.Cells[off]
		for i := 1; i < cnt; i++ {
			res = e.concat(st, res.(Slice), sep)
			res = e.concat(st, res.(Slice), o.Cells[off+i].(Slice))
		}
		return res
	}
	// strings.ToLower / ToUpper on ASCII input (one decision: all bytes below 0x80); other input
	// goes through unicode tables and may change length: not modelled (the path ends inconclusive)
	caseMap := func(lower bool) NativeFn {
		return func(e *Engine, st *State, a []Value, ci ssa.CallInstruction) Value {
			s := a[0].(Slice)
			n := st.concreteSize(s.Len, "strings.ToLower length")
			if n == 0 {
				return s
			}
			arr := st.obj(s.Obj).Arr
			ascii := tTrue
			for i := 0; i < n; i++ {
				ascii = And(ascii, BVUlt(Select(arr, BVAdd(s.Off, U64(uint64(i)))), BVC(8, 0x80)))
			}
			if !st.decide(ascii) {
				panic(abortSignal{"strings.ToLower/ToUpper on non-ASCII input is not modelled"})
			}
			out := ZeroArr()
			for i := 0; i < n; i++ {
				b := Select(arr, BVAdd(s.Off, U64(uint64(i))))
				lo, hi, d := uint64('A'), uint64('Z'), uint64(32)
				if !lower {
					lo, hi = uint64('a'), uint64('z')
				}
				in := And(BVUle(BVC(8, lo), b), BVUle(b, BVC(8, hi)))
				var m *Term
				if lower {
					m = BVAdd(b, BVC(8, d))
				} else {
					m = BVSub(b, BVC(8, d))
				}
				out = Store(out, U64(uint64(i)), Ite(in, m, b))
			}
			id := st.newBytes(out, U64(uint64(n)))
			return Slice{Obj: id, Off: U64(0), Len: U64(uint64(n)), Cap: U64(uint64(n))}
		}
	}
	n["strings.ToLower"] = caseMap(true)
	n["strings.ToUpper"] = caseMap(false)
	n["(crypto.Hash).Size"] = func(e *Engine, st *State, a []Value, ci ssa.CallInstruction) Value {
		sizes := map[uint64]int64{1: 16, 2: 16, 3: 20, 4: 28, 5: 32, 6: 48, 7: 64, 8: 36, 9: 20, 10: 28, 11: 32, 12: 48, 13: 64, 14: 28, 15: 32, 16: 32, 17: 32, 18: 64, 19: 64}
		t := a[0].(BV).T
		if !t.IsConst() {
			panic(abortSignal{"crypto.Hash.Size of symbolic hash"})
		}
		return BV{I64(sizes[t.C])}
	}
	n["(crypto.Hash).HashFunc"] = func(e *Engine, st *State, a []Value, ci ssa.CallInstruction) Value { return a[0] }
	indexByte := func(e *Engine, st *State, a []Value, ci ssa.CallInstruction) Value {
		s := a[0].(Slice)
		c := a[1].(BV).T
		n := st.concreteSize(s.Len, "IndexByte length")
		r := I64(-1)
		if n > 0 {
			arr := st.obj(s.Obj).Arr
			for i := n - 1; i >= 0; i-- {
				r = Ite(Eq(Select(arr, BVAdd(s.Off, U64(uint64(i)))), c), I64(int64(i)), r)
			}
		}
		return BV{r}
	}
	n["internal/bytealg.IndexByte"] = indexByte
	n["internal/bytealg.IndexByteString"] = indexByte
	n["bytes.IndexByte"] = indexByte
	n["strings.IndexByte"] = indexByte
	countByte := func(e *Engine, st *State, a []Value, ci ssa.CallInstruction) Value {
		s := a[0].(Slice)
		c := a[1].(BV).T
		n := st.concreteSize(s.Len, "Count length")
		r := I64(0)
		if n > 0 {
			arr := st.obj(s.Obj).Arr
			for i := 0; i < n; i++ {
				r = BVAdd(r, Ite(Eq(Select(arr, BVAdd(s.Off, U64(uint64(i)))), c), I64(1), I64(0)))
			}
		}
		return BV{r}
	}
	n["internal/bytealg.Count"] = countByte
	n["internal/bytealg.CountString"] = countByte
	n["encoding/hex.EncodeToString"] = func(e *Engine, st *State, a []Value, ci ssa.CallInstruction) Value {
		src := a[0].(Slice)
		cnt := st.concreteSize(src.Len, "hex.EncodeToString length")
		arr := ZeroArr()
		var sa *Term
		if src.Obj != 0 {
			sa = st.obj(src.Obj).Arr
		}
		digit := func(nib *Term) *Term { // nib is 8 bits wide, value 0..15
			return Ite(BVUlt(nib, BVC(8, 10)), BVAdd(nib, BVC(8, '0')), BVAdd(nib, BVC(8, 'a'-10)))
		}
		for i := 0; i < cnt; i++ {
			b := Select(sa, BVAdd(src.Off, U64(uint64(i))))
			arr = Store(arr, U64(uint64(2*i)), digit(BVLshr(b, BVC(8, 4))))
			arr = Store(arr, U64(uint64(2*i+1)), digit(BVAnd(b, BVC(8, 15))))
		}
		ln := U64(uint64(2 * cnt))
		o := &Obj{Kind: OBytes, Arr: arr, Len: ln, ReadOnly: true}
		if src.Obj != 0 {
			o.HexSrc = &HexSrc{Arr: sa, Off: src.Off, Len: src.Len}
		} else {
			o.HexSrc = &HexSrc{Arr: ZeroArr(), Off: U64(0), Len: U64(0)}
		}
		id := st.newObj(o)
		return Slice{Obj: id, Off: U64(0), Len: ln, Cap: ln}
	}
	// reflect: just enough for cryptobyte.ReadASN1Integer(*intN / *uintN)
	type rval struct {
		ifc  Iface
		ptr  Ptr
		elem types.Type
	}
	n["reflect.ValueOf"] = func(e *Engine, st *State, a []Value, ci ssa.CallInstruction) Value {
		ifc, ok := a[0].(Iface)
		if !ok || ifc.T == nil {
			panic(abortSignal{"reflect.ValueOf(nil)"})
		}
		return Opaque{Tag: "reflect.Value", X: &rval{ifc: ifc}}
	}
	n["(reflect.Value).Elem"] = func(e *Engine, st *State, a []Value, ci ssa.CallInstruction) Value {
		rv := a[0].(Opaque).X.(*rval)
		pt, ok := rv.ifc.T.Underlying().(*types.Pointer)
		if !ok {
			panic(abortSignal{"reflect.Value.Elem of non-pointer"})
		}
		return Opaque{Tag: "reflect.Value", X: &rval{ptr: rv.ifc.V.(Ptr), elem: pt.Elem()}}
	}
	n["(reflect.Value).OverflowInt"] = func(e *Engine, st *State, a []Value, ci ssa.CallInstruction) Value {
		rv := a[0].(Opaque).X.(*rval)
		w, _, ok := intWidth(rv.elem)
		if !ok {
			panic(abortSignal{"reflect OverflowInt on non-integer"})
		}
		x := a[1].(BV).T
		if w == 64 {
			return Bool{tFalse}
		}
		return Bool{Not(Eq(SExt(Extract(x, w-1, 0), 64), x))}
	}
	n["(reflect.Value).OverflowUint"] = func(e *Engine, st *State, a []Value, ci ssa.CallInstruction) Value {
		rv := a[0].(Opaque).X.(*rval)
		w, _, ok := intWidth(rv.elem)
		if !ok {
			panic(abortSignal{"reflect OverflowUint on non-integer"})
		}
		x := a[1].(BV).T
		if w == 64 {
			return Bool{tFalse}
		}
		return Bool{Not(Eq(ZExt(Extract(x, w-1, 0), 64), x))}
	}
	setInt := func(e *Engine, st *State, a []Value, ci ssa.CallInstruction) Value {
		rv := a[0].(Opaque).X.(*rval)
		w, _, _ := intWidth(rv.elem)
		st.store(rv.ptr, BV{Extract(a[1].(BV).T, w-1, 0)})
		return nil
	}
	n["(reflect.Value).SetInt"] = setInt
	n["(reflect.Value).SetUint"] = setInt
	n["encoding/hex.DecodeString"] = func(e *Engine, st *State, a []Value, ci ssa.CallInstruction) Value {
		sl := a[0].(Slice)
		if sl.Obj != 0 {
			o := st.obj(sl.Obj)
			if h := o.HexSrc; h != nil && sl.Off.IsConst() && sl.Off.C == 0 && sl.Len == o.Len {
				// the exact inverse of EncodeToString
				arr := copyInto(ZeroArr(), U64(0), h.Arr, h.Off, h.Len)
				id := st.newBytes(arr, h.Len)
				return Tuple{[]Value{Slice{Obj: id, Off: U64(0), Len: h.Len, Cap: h.Len}, Iface{}}}
			}
		}
		str, ok := e.concreteString(st, sl)
		if !ok {
			panic(abortSignal{"hex.DecodeString of a symbolic string that is not an EncodeToString result"})
		}
		out := make([]byte, 0, len(str)/2)
		if len(str)%2 != 0 {
			return Tuple{[]Value{Slice{Obj: 0, Off: U64(0), Len: U64(0), Cap: U64(0)}, e.opaqueError(st, "hex: odd length")}}
		}
		for i := 0; i+1 < len(str); i += 2 {
			hi, ok1 := unhex(str[i])
			lo, ok2 := unhex(str[i+1])
			if !ok1 || !ok2 {
				return Tuple{[]Value{Slice{Obj: 0, Off: U64(0), Len: U64(0), Cap: U64(0)}, e.opaqueError(st, "hex: invalid byte")}}
			}
			out = append(out, hi<<4|lo)
		}
		arr := ZeroArr()
		for i, c := range out {
			arr = Store(arr, U64(uint64(i)), BVC(8, uint64(c)))
		}
		ln := U64(uint64(len(out)))
		id := st.newBytes(arr, ln)
		return Tuple{[]Value{Slice{Obj: id, Off: U64(0), Len: ln, Cap: ln}, Iface{}}}
	}
	nop := func(e *Engine, st *State, a []Value, ci ssa.CallInstruction) Value { return nil }
	lock := func(e *Engine, st *State, a []Value, ci ssa.CallInstruction) Value { st.lockDepth++; return nil }
	unlock := func(e *Engine, st *State, a []Value, ci ssa.CallInstruction) Value {
		if st.lockDepth > 0 {
			st.lockDepth--
		}
		return nil
	}
	n["(*sync.Mutex).Lock"] = lock
	n["(*sync.Mutex).Unlock"] = unlock
	n["(*sync.RWMutex).Lock"] = lock
	n["(*sync.RWMutex).Unlock"] = unlock
	n["(*sync.RWMutex).RLock"] = nop
	n["(*sync.RWMutex).RUnlock"] = nop
	n["runtime.KeepAlive"] = nop
	n["math/bits.Mul64"] = func(e *Engine, st *State, a []Value, ci ssa.CallInstruction) Value {
		x, y := a[0].(BV).T, a[1].(BV).T
		if x.IsConst() && y.IsConst() {
			hi, lo := mul128(x.C, y.C)
			return Tuple{[]Value{BV{U64(hi)}, BV{U64(lo)}}}
		}
		p := BVMul(ZExt(x, 128), ZExt(y, 128))
		return Tuple{[]Value{BV{Extract(p, 127, 64)}, BV{Extract(p, 63, 0)}}}
	}
	n["math/bits.Add64"] = func(e *Engine, st *State, a []Value, ci ssa.CallInstruction) Value {
		x, y, c := a[0].(BV).T, a[1].(BV).T, a[2].(BV).T
		s := BVAdd(BVAdd(ZExt(x, 65), ZExt(y, 65)), ZExt(c, 65))
		return Tuple{[]Value{BV{Extract(s, 63, 0)}, BV{ZExt(Extract(s, 64, 64), 64)}}}
	}
	n["math/bits.Sub64"] = func(e *Engine, st *State, a []Value, ci ssa.CallInstruction) Value {
		x, y, c := a[0].(BV).T, a[1].(BV).T, a[2].(BV).T
		s := BVSub(BVSub(ZExt(x, 65), ZExt(y, 65)), ZExt(c, 65))
		return Tuple{[]Value{BV{Extract(s, 63, 0)}, BV{ZExt(Extract(s, 64, 64), 64)}}}
	}
}

func unhex(c byte) (byte, bool) {
	switch {
	case c >= '0' && c <= '9':
		return c - '0', true
	case c >= 'a' && c <= 'f':
		return c - 'a' + 10, true
	case c >= 'A' && c <= 'F':
		return c - 'A' + 10, true
	}
	return 0, false
}
