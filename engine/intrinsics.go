package main

import (
	"fmt"

	"golang.org/x/tools/go/ssa"
)

func (e *Engine) registerIntrinsics() {
	n := e.natives
	n["bytes.Equal"] = func(e *Engine, st *State, a []Value, ci ssa.CallInstruction) Value {
		return Bool{e.bytesEq(st, a[0].(Slice), a[1].(Slice))}
	}
	n["crypto/subtle.ConstantTimeCompare"] = func(e *Engine, st *State, a []Value, ci ssa.CallInstruction) Value {
		eq := e.bytesEq(st, a[0].(Slice), a[1].(Slice))
		return BV{Ite(eq, I64(1), I64(0))}
	}
	opaqueErr := func(e *Engine, st *State, a []Value, ci ssa.CallInstruction) Value {
		return e.opaqueError(st, posOf(st, e))
	}
	n["fmt.Errorf"] = opaqueErr
	n["errors.New"] = opaqueErr
	n["fmt.Sprintf"] = func(e *Engine, st *State, a []Value, ci ssa.CallInstruction) Value {
		return st.strConst("<sprintf>")
	}
	n["fmt.Sprint"] = n["fmt.Sprintf"]
	n["fmt.Println"] = func(e *Engine, st *State, a []Value, ci ssa.CallInstruction) Value {
		return Tuple{[]Value{BV{I64(0)}, Iface{}}}
	}
	n["fmt.Printf"] = n["fmt.Println"]
	n["strconv.Itoa"] = func(e *Engine, st *State, a []Value, ci ssa.CallInstruction) Value {
		t := a[0].(BV).T
		if t.IsConst() {
			return st.strConst(fmt.Sprintf("%d", t.SVal()))
		}
		return st.strConst("<itoa>")
	}
	n["(*sync.Once).Do"] = func(e *Engine, st *State, a []Value, ci ssa.CallInstruction) Value {
		p := a[0].(Ptr)
		key := fmt.Sprintf("once:%d:%d:%v", p.Obj, p.Cell, p.Path)
		if st.onceDone[key] {
			return nil
		}
		st.onceDone[key] = true
		cl := a[1].(Closure)
		// advance the caller past the call before pushing, result is discarded
		fr := st.top()
		fr.ip++
		e.pushFrame(st, cl.Fn, nil, cl.Binds)
		st.top().discard = true
		return pushedFrame{}
	}
	nop := func(e *Engine, st *State, a []Value, ci ssa.CallInstruction) Value { return nil }
	n["(*sync.Mutex).Lock"] = nop
	n["(*sync.Mutex).Unlock"] = nop
	n["(*sync.RWMutex).Lock"] = nop
	n["(*sync.RWMutex).Unlock"] = nop
	n["(*sync.RWMutex).RLock"] = nop
	n["(*sync.RWMutex).RUnlock"] = nop
	n["runtime.KeepAlive"] = nop
	n["math/bits.Mul64"] = func(e *Engine, st *State, a []Value, ci ssa.CallInstruction) Value {
		x, y := a[0].(BV).T, a[1].(BV).T
		if x.IsConst() && y.IsConst() {
			hi, lo := mul128(x.C, y.C)
			return Tuple{[]Value{BV{U64(hi)}, BV{U64(lo)}}}
		}
		p := BVMul(ZExt(x, 128), ZExt(y, 128))
		return Tuple{[]Value{BV{Extract(p, 127, 64)}, BV{Extract(p, 63, 0)}}}
	}
	n["math/bits.Add64"] = func(e *Engine, st *State, a []Value, ci ssa.CallInstruction) Value {
		x, y, c := a[0].(BV).T, a[1].(BV).T, a[2].(BV).T
		s := BVAdd(BVAdd(ZExt(x, 65), ZExt(y, 65)), ZExt(c, 65))
		return Tuple{[]Value{BV{Extract(s, 63, 0)}, BV{ZExt(Extract(s, 64, 64), 64)}}}
	}
	n["math/bits.Sub64"] = func(e *Engine, st *State, a []Value, ci ssa.CallInstruction) Value {
		x, y, c := a[0].(BV).T, a[1].(BV).T, a[2].(BV).T
		s := BVSub(BVSub(ZExt(x, 65), ZExt(y, 65)), ZExt(c, 65))
		return Tuple{[]Value{BV{Extract(s, 63, 0)}, BV{ZExt(Extract(s, 64, 64), 64)}}}
	}
}
