package main

import (
	"encoding/json"
	"flag"
	"fmt"
	"go/types"
	"os"
	"path/filepath"
	"regexp"
	"sort"
	"strings"
	"time"

	"golang.org/x/tools/go/packages"
	"golang.org/x/tools/go/ssa"
	"golang.org/x/tools/go/ssa/ssautil"
)

func writeFile(path, txt string) {
	os.MkdirAll(filepath.Dir(path), 0o755)
	os.WriteFile(path, []byte(txt), 0o644)
}

type Output struct {
	Tier      string           `json:"tier"`
	LoadS     float64          `json:"load_s"`
	Harnesses []*HarnessResult `json:"harnesses"`
	Dropped   []string         `json:"dropped_harness_files"`
	Solver    string           `json:"solver"`
	Errors    []string         `json:"solver_errors"`
}

func main() {
	dir := flag.String("dir", "/verif/hmod", "module directory used for loading")
	repo := flag.String("repo", "/repo", "repository root")
	hdir := flag.String("harness", "/verif/harness", "harness directory (overlaid into the repo packages)")
	run := flag.String("run", ".", "regexp of harness names")
	out := flag.String("out", "", "result JSON path")
	flag.StringVar(&tier, "tier", "quick", "quick|thorough")
	flag.StringVar(&vcDir, "vcdir", "", "directory for standalone VC files")
	solverCmd := flag.String("solver", "z3-new -in", "solver command")
	verbose := flag.Int("v", 1, "verbosity")
	cex := flag.String("concrete", "", "JSON file of concrete inputs (concrete mode)")
	maxPaths := flag.Int("maxpaths", 20000, "")
	maxSec := flag.Float64("maxsec", 600, "per harness")
	branchTO := flag.Int("branch-timeout", 5000, "ms")
	assertTO := flag.Int("assert-timeout", 30000, "ms")
	unwind := flag.Int("unwind", 8, "default loop bound for symbolic loops")
	slog := flag.String("solverlog", "", "")
	bounds := flag.String("bounds", "", "name=value,... overrides of vBound")
	list := flag.Bool("list", false, "list harnesses")
	extra := flag.String("pkgs", "", "extra package patterns to load, comma separated")
	inv := flag.Bool("inv", false, "also assert inverse-function axioms for injective UFs (default: structural rewriting of UF equalities only)")
	flag.BoolVar(&slowLog, "slowlog", false, "report slow solver queries")
	flag.Parse()
	noInverseAxioms = !*inv

	for _, kv := range strings.Split(*bounds, ",") {
		if i := strings.IndexByte(kv, '='); i > 0 {
			var v int
			fmt.Sscanf(kv[i+1:], "%d", &v)
			boundOverride[kv[:i]] = v
		}
	}
	var concreteCases []map[string]interface{}
	if *cex != "" {
		b, err := os.ReadFile(*cex)
		if err != nil {
			fatal(err)
		}
		var m map[string]interface{}
		if err := json.Unmarshal(b, &m); err != nil {
			fatal(err)
		}
		if cs, ok := m["cases"].([]interface{}); ok {
			for _, c := range cs {
				concreteCases = append(concreteCases, c.(map[string]interface{}))
			}
		} else if in, ok := m["inputs"].(map[string]interface{}); ok {
			concreteInputs = in
		} else {
			concreteInputs = m
		}
	}

	t0 := time.Now()
	overlay := map[string][]byte{}
	var hfiles []string
	filepath.Walk(*hdir, func(p string, info os.FileInfo, err error) error {
		if err != nil || info.IsDir() || !strings.HasSuffix(p, ".go") || strings.HasSuffix(p, "_test.go") {
			return nil
		}
		rel, _ := filepath.Rel(*hdir, p)
		b, _ := os.ReadFile(p)
		overlay[filepath.Join(*repo, rel)] = b
		hfiles = append(hfiles, filepath.Join(*repo, rel))
		return nil
	})
	// the runtime file is shared: harness/_rt/zz_verif_rt.go.tmpl is instantiated per package
	tmpl, _ := os.ReadFile(filepath.Join(*hdir, "_rt", "rt.go.tmpl"))
	pkgDirs := map[string]bool{}
	for _, f := range hfiles {
		pkgDirs[filepath.Dir(f)] = true
	}
	if tmpl != nil {
		for d := range pkgDirs {
			name := pkgNameOf(d, overlay)
			if name == "" {
				continue
			}
			overlay[filepath.Join(d, "zz_verif_rt.go")] = []byte(strings.Replace(string(tmpl), "package PKG", "package "+name, 1))
		}
	}

	patterns := []string{"github.com/cloudflare/pat-go/...", "hmod/models"}
	if *extra != "" {
		patterns = append(patterns, strings.Split(*extra, ",")...)
	}
	var prog *ssa.Program
	var pkgs []*packages.Package
	var dropped []string
	for attempt := 0; attempt < 6; attempt++ {
		cfg := &packages.Config{Mode: packages.LoadAllSyntax, Dir: *dir, Overlay: overlay, Env: append(os.Environ(), "GOFLAGS=-mod=mod", "GOPROXY=off", "GOSUMDB=off", "GOTOOLCHAIN=local")}
		var err error
		pkgs, err = packages.Load(cfg, patterns...)
		if err != nil {
			fatal(err)
		}
		// drop harness files that do not type-check against the current tree
		bad := map[string]bool{}
		packages.Visit(pkgs, nil, func(p *packages.Package) {
			for _, e := range p.Errors {
				pos := e.Pos
				if i := strings.Index(pos, ":"); i > 0 {
					f := pos[:i]
					if _, ok := overlay[f]; ok && strings.Contains(filepath.Base(f), "zz_verif_") && !strings.HasSuffix(f, "zz_verif_rt.go") {
						bad[f] = true
					}
				}
			}
		})
		if len(bad) == 0 {
			break
		}
		for f := range bad {
			delete(overlay, f)
			dropped = append(dropped, f)
			fmt.Fprintf(os.Stderr, "dropping harness file %s (does not type-check)\n", f)
		}
	}
	nerr := 0
	packages.Visit(pkgs, nil, func(p *packages.Package) {
		for _, e := range p.Errors {
			if nerr < 10 {
				fmt.Fprintln(os.Stderr, "load error:", e)
			}
			nerr++
		}
	})
	if nerr > 0 {
		fatal(fmt.Errorf("%d load errors", nerr))
	}
	prog, _ = ssautil.AllPackages(pkgs, ssa.InstantiateGenerics)
	prog.Build()
	loadS := time.Since(t0).Seconds()

	sv, err := NewSolver(strings.Fields(*solverCmd), *slog)
	if err != nil {
		fatal(err)
	}
	defer sv.Close()

	e := &Engine{prog: prog, solver: sv, natives: map[string]NativeFn{}, subst: map[string]*ssa.Function{}, groupSubst: map[string]map[string]*ssa.Function{}, fninfo: map[*ssa.Function]*FnInfo{}}
	e.cfg = Config{BranchTimeoutMs: *branchTO, AssertTimeoutMs: *assertTO, MaxPaths: *maxPaths, MaxSteps: 5000000, Unwind: *unwind, MaxSeconds: *maxSec, Verbose: *verbose, AllocBound: true}
	e.allow = func(p string) bool {
		return strings.HasPrefix(p, "github.com/cloudflare/pat-go") || strings.HasPrefix(p, "hmod/") || extraAllow[p]
	}
	opaqueErrType = types.NewNamed(types.NewTypeName(0, nil, "opaqueError", nil), types.NewStruct(nil, nil), nil)
	e.registerIntrinsics()
	e.registerModels()

	// harness discovery
	re := regexp.MustCompile(*run)
	var hs []*ssa.Function
	for _, p := range prog.AllPackages() {
		if !strings.HasPrefix(p.Pkg.Path(), "github.com/cloudflare/pat-go") {
			continue
		}
		for name, m := range p.Members {
			fn, ok := m.(*ssa.Function)
			if ok && strings.HasPrefix(name, "Verif") && re.MatchString(name) {
				hs = append(hs, fn)
			}
		}
	}
	sort.Slice(hs, func(i, j int) bool { return hs[i].Name() < hs[j].Name() })
	if *list {
		for _, h := range hs {
			fmt.Println(h.Name(), h.Pkg.Pkg.Path())
		}
		return
	}
	output := &Output{Tier: tier, LoadS: loadS, Solver: *solverCmd, Dropped: dropped}
	if concreteCases != nil {
		// translator validation: each case is one concrete execution of its harness
		byName := map[string]*ssa.Function{}
		for _, h := range hs {
			byName[h.Name()] = h
		}
		for _, c := range concreteCases {
			h := byName[c["harness"].(string)]
			if h == nil {
				continue
			}
			concreteInputs = c["inputs"].(map[string]interface{})
			base := &State{heap: map[int]*Obj{}, decided: map[int]bool{}, eqc: map[int]*Term{}, globals: map[*ssa.Global]int{}, inited: map[*ssa.Package]bool{}, counters: map[string]int{}, onceDone: map[string]bool{}, ghost: map[string]Value{}, unwind: 100000}
			r := e.RunHarness(h, base)
			r.finalize()
			output.Harnesses = append(output.Harnesses, r)
		}
		if *out != "" {
			b, _ := json.MarshalIndent(output, "", " ")
			writeFile(*out, string(b))
		}
		return
	}
	for _, h := range hs {
		base := &State{heap: map[int]*Obj{}, decided: map[int]bool{}, eqc: map[int]*Term{}, globals: map[*ssa.Global]int{}, inited: map[*ssa.Package]bool{}, counters: map[string]int{}, onceDone: map[string]bool{}, ghost: map[string]Value{}, unwind: e.cfg.Unwind}
		nerr0 := len(sv.errs)
		r := e.RunHarness(h, base)
		if len(sv.errs) > nerr0 {
			r.Aborts = append(r.Aborts, "solver reported an error during this harness: "+sv.errs[nerr0])
		}
		r.finalize()
		output.Harnesses = append(output.Harnesses, r)
		if *verbose >= 1 {
			fmt.Fprintf(os.Stderr, "%-40s %-12s paths=%d steps=%d q=%v solver=%.1fs wall=%.1fs\n", r.Name, r.Status, r.Paths, r.Steps, r.Queries, r.SolverS, r.WallS)
			seenL := map[string]int{}
			for _, a := range r.Asserts {
				if a.Result != "proved" {
					seenL[a.Result+a.Label]++
					if seenL[a.Result+a.Label] > 1 {
						continue
					}
					fmt.Fprintf(os.Stderr, "    %s %s [%s] %s\n", a.Result, a.Label, a.Kind, trunc(a.Msg, 200))
					if a.Cex != nil && *verbose >= 2 {
						b, _ := json.Marshal(a.Cex)
						fmt.Fprintf(os.Stderr, "      cex: %s\n", trunc(string(b), 200))
					}
				}
			}
			for k, n := range seenL {
				if n > 1 {
					fmt.Fprintf(os.Stderr, "    (%s: %d paths)\n", k, n)
				}
			}
			for i, a := range r.Aborts {
				if i < 2 {
					fmt.Fprintf(os.Stderr, "    ABORT %s\n", trunc(a, 400))
				}
			}
			if *verbose >= 3 {
				type kv struct {
					k string
					v int
				}
				var kvs []kv
				for k, v := range forkSites {
					kvs = append(kvs, kv{k, v})
				}
				sort.Slice(kvs, func(i, j int) bool { return kvs[i].v > kvs[j].v })
				for i, x := range kvs {
					if i < 12 {
						fmt.Fprintf(os.Stderr, "    forks %5d at %s\n", x.v, x.k)
					}
				}
			}
			forkSites = map[string]int{}
			if len(r.Degraded) > 0 {
				fmt.Fprintf(os.Stderr, "    havocked callees: %v\n", r.Degraded)
			}
			for l, n := range r.Reached {
				_ = l
				_ = n
			}
		}
	}
	output.Errors = sv.errs
	if *out != "" {
		b, _ := json.MarshalIndent(output, "", " ")
		writeFile(*out, string(b))
	}
}

var extraAllow = map[string]bool{}

func trunc(s string, n int) string {
	if len(s) > n {
		return s[:n] + "…"
	}
	return s
}

func fatal(err error) {
	fmt.Fprintln(os.Stderr, "gosmt:", err)
	os.Exit(2)
}

func pkgNameOf(dir string, overlay map[string][]byte) string {
	// read the package clause from any non-test file on disk
	ents, _ := os.ReadDir(dir)
	for _, en := range ents {
		if strings.HasSuffix(en.Name(), ".go") && !strings.HasSuffix(en.Name(), "_test.go") {
			b, _ := os.ReadFile(filepath.Join(dir, en.Name()))
			for _, line := range strings.Split(string(b), "\n") {
				line = strings.TrimSpace(line)
				if strings.HasPrefix(line, "package ") {
					return strings.Fields(line)[1]
				}
			}
		}
	}
	return ""
}
