package main

import (
	"fmt"
	"os"
	"strings"

	"golang.org/x/tools/go/ssa"
)

// registerModels reads hmod/models/subst.txt: "<callee full name> <model function name>" per line.
func (e *Engine) registerModels() {
	var mp *ssa.Package
	for _, p := range e.prog.AllPackages() {
		if p.Pkg.Path() == "hmod/models" {
			mp = p
		}
	}
	e.modelsPkg = mp
	if mp == nil {
		return
	}
	b, err := os.ReadFile("/verif/hmod/models/subst.txt")
	if err != nil {
		return
	}
	for _, line := range strings.Split(string(b), "\n") {
		line = strings.TrimSpace(line)
		if line == "" || strings.HasPrefix(line, "#") {
			continue
		}
		group := ""
		if strings.HasPrefix(line, "@") {
			j := strings.IndexByte(line, ' ')
			group, line = line[1:j], strings.TrimSpace(line[j+1:])
		}
		i := strings.LastIndexByte(line, ' ')
		if i < 0 {
			continue
		}
		callee, model := strings.TrimSpace(line[:i]), line[i+1:]
		if group != "" && model == "-" {
			// "@group <callee> -": within this group the callee is executed from its real body
			if e.groupSubst[group] == nil {
				e.groupSubst[group] = map[string]*ssa.Function{}
			}
			e.groupSubst[group][callee] = nil
			continue
		}
		if group != "" {
			fn := mp.Func(model)
			if fn == nil {
				fatal(fmt.Errorf("subst.txt: no model function %s", model))
			}
			if e.groupSubst[group] == nil {
				e.groupSubst[group] = map[string]*ssa.Function{}
			}
			e.groupSubst[group][callee] = fn
			continue
		}
		if strings.HasPrefix(callee, "global ") {
			g := strings.TrimPrefix(callee, "global ")
			fn := mp.Func(model)
			if fn == nil {
				fatal(fmt.Errorf("subst.txt: no model function %s", model))
			}
			globalOverrides[g] = func(e *Engine, st *State) Value {
				return e.callSync(st, fn, nil)
			}
			continue
		}
		fn := mp.Func(model)
		if fn == nil {
			fatal(fmt.Errorf("subst.txt: no model function %s", model))
		}
		e.subst[callee] = fn
	}
}

// callSync runs a (straight-line, non-forking) function to completion on st and returns its result.
func (e *Engine) callSync(st *State, fn *ssa.Function, args []Value) Value {
	depth := len(st.frames)
	// a sentinel frame receives the result
	e.pushFrame(st, fn, args, nil)
	var result Value
	for len(st.frames) > depth {
		fr := st.top()
		if len(st.frames) == depth+1 && !fr.runningDefers {
			if ret, ok := fr.block.Instrs[fr.ip].(*ssa.Return); ok {
				if len(ret.Results) == 1 {
					result = e.val(st, fr, ret.Results[0])
				}
				st.frames = st.frames[:depth]
				break
			}
		}
		st.sub = 0
		e.step(st)
		st.seq++
	}
	return result
}
