package main

import (
	"encoding/hex"
	"fmt"
	"math/big"
	"os"
	"os/exec"
	"time"
	"go/types"
	"sort"
	"strings"

	"golang.org/x/tools/go/ssa"
)

var globalOverrides = map[string]func(e *Engine, st *State) Value{}

// harness API, matched by short function name in any analysed package
var harnessAPI = map[string]NativeFn{}

func init() {
	harnessAPI["vU64"] = func(e *Engine, st *State, a []Value, ci ssa.CallInstruction) Value {
		return BV{e.input(st, e.cstr(st, a[0]), "u64", SBV(64))}
	}
	harnessAPI["vByte"] = func(e *Engine, st *State, a []Value, ci ssa.CallInstruction) Value {
		return BV{e.input(st, e.cstr(st, a[0]), "u8", SBV(8))}
	}
	harnessAPI["vU16"] = func(e *Engine, st *State, a []Value, ci ssa.CallInstruction) Value {
		return BV{e.input(st, e.cstr(st, a[0]), "u16", SBV(16))}
	}
	harnessAPI["vBool"] = func(e *Engine, st *State, a []Value, ci ssa.CallInstruction) Value {
		return Bool{e.input(st, e.cstr(st, a[0]), "bool", SBool)}
	}
	harnessAPI["vInt"] = func(e *Engine, st *State, a []Value, ci ssa.CallInstruction) Value {
		lo, hi := a[1].(BV).T, a[2].(BV).T
		if lo.IsConst() && hi.IsConst() && lo.C == hi.C {
			// still register for replay
			t := e.input(st, e.cstr(st, a[0]), "int", SBV(64))
			st.addPC(Eq(t, lo))
			return BV{lo}
		}
		t := e.input(st, e.cstr(st, a[0]), "int", SBV(64))
		st.addPC(And(BVSle(lo, t), BVSle(t, hi)))
		return BV{t}
	}
	harnessAPI["vBytes"] = func(e *Engine, st *State, a []Value, ci ssa.CallInstruction) Value {
		name := e.cstr(st, a[0])
		lo, hi := a[1].(BV).T, a[2].(BV).T
		if !lo.IsConst() || !hi.IsConst() {
			panic(abortSignal{"vBytes bounds must be concrete"})
		}
		return e.inputBytes(st, name, int(lo.C), int(hi.C), 0)
	}
	// vBytesC: like vBytes, but the length is concretised by case splitting (small ranges only)
	harnessAPI["vBytesC"] = func(e *Engine, st *State, a []Value, ci ssa.CallInstruction) Value {
		name := e.cstr(st, a[0])
		lo, hi := int(a[1].(BV).T.C), int(a[2].(BV).T.C)
		if concreteInputs != nil || lo == hi {
			return e.inputBytes(st, name, lo, hi, 0)
		}
		full := e.inputName(st, name)
		ln := Var("in_"+full+"_len", SBV(64))
		k := -1
		for i := lo; i <= hi; i++ {
			if i == hi || st.decide(Eq(ln, U64(uint64(i)))) {
				k = i
				break
			}
		}
		v := e.inputBytes(st, name, lo, hi, 0).(Slice)
		c := U64(uint64(k))
		st.addPC(Eq(ln, c))
		st.wobj(v.Obj).Len = c
		return Slice{Obj: v.Obj, Off: v.Off, Len: c, Cap: c}
	}
	// vBufC(name, n, maxSpare): n bytes with 0..maxSpare bytes of spare capacity, case-split
	harnessAPI["vBufC"] = func(e *Engine, st *State, a []Value, ci ssa.CallInstruction) Value {
		name := e.cstr(st, a[0])
		n, sp := int(a[1].(BV).T.C), int(a[2].(BV).T.C)
		if concreteInputs != nil || sp == 0 {
			return e.inputBytes(st, name, n, n, sp)
		}
		full := e.inputName(st, name)
		sv := Var("in_"+full+"_spare", SBV(64))
		k := sp
		for i := 0; i < sp; i++ {
			if st.decide(Eq(sv, U64(uint64(i)))) {
				k = i
				break
			}
		}
		v := e.inputBytes(st, name, n, n, sp).(Slice)
		st.addPC(Eq(sv, U64(uint64(k))))
		c := U64(uint64(n + k))
		st.wobj(v.Obj).Len = c
		return Slice{Obj: v.Obj, Off: v.Off, Len: v.Len, Cap: c}
	}
	harnessAPI["vSplit"] = func(e *Engine, st *State, a []Value, ci ssa.CallInstruction) Value {
		n := a[0].(BV).T
		lo, hi := int(a[1].(BV).T.SVal()), int(a[2].(BV).T.SVal())
		if n.IsConst() {
			return a[0]
		}
		for i := lo; i <= hi; i++ {
			if st.decide(Eq(n, I64(int64(i)))) {
				return BV{I64(int64(i))}
			}
		}
		panic(killSignal{"vSplit: value outside the stated range"})
	}
	harnessAPI["vBuf"] = func(e *Engine, st *State, a []Value, ci ssa.CallInstruction) Value {
		name := e.cstr(st, a[0])
		lo, hi, sp := a[1].(BV).T, a[2].(BV).T, a[3].(BV).T
		return e.inputBytes(st, name, int(lo.C), int(hi.C), int(sp.C))
	}
	harnessAPI["vAssume"] = func(e *Engine, st *State, a []Value, ci ssa.CallInstruction) Value {
		c := a[0].(Bool).T
		if c.IsTrue() {
			return nil
		}
		if c.IsFalse() {
			panic(killSignal{"assume false"})
		}
		if _, ok := st.decided[condKey(c)]; ok {
			if st.decide(c) {
				return nil
			}
			panic(killSignal{"assume false"})
		}
		r := e.solver.Check(st.pc, c, e.cfg.BranchTimeoutMs)
		if r == Unsat {
			panic(killSignal{"assume infeasible"})
		}
		if r == Unknown {
			st.unchecked = true
			e.res.Unchecked++
		}
		st.assume(c)
		return nil
	}
	harnessAPI["vAssert"] = func(e *Engine, st *State, a []Value, ci ssa.CallInstruction) Value {
		c := a[0].(Bool).T
		label := e.cstr(st, a[1])
		e.assertion(st, c, label, "assert", "")
		return nil
	}
	harnessAPI["vReach"] = func(e *Engine, st *State, a []Value, ci ssa.CallInstruction) Value {
		label := e.cstr(st, a[0])
		e.res.Reached[label]++
		if e.res.Reached[label] == 1 {
			if r, cex := e.model(st, nil, e.cfg.AssertTimeoutMs); r == Sat {
				e.res.ReachModels[label] = cex
			}
		}
		st.reached = append(st.reached, label)
		return nil
	}
	harnessAPI["vUnwind"] = func(e *Engine, st *State, a []Value, ci ssa.CallInstruction) Value {
		st.unwind = int(a[0].(BV).T.C)
		e.res.Bounds["unwind"] = st.unwind
		return nil
	}
	harnessAPI["vUnwindAssume"] = func(e *Engine, st *State, a []Value, ci ssa.CallInstruction) Value {
		st.unwind = int(a[0].(BV).T.C)
		st.ghost["unwindAssume"] = Bool{tTrue}
		e.res.Bounds["unwind(assumed)"] = st.unwind
		return nil
	}
	harnessAPI["vBound"] = func(e *Engine, st *State, a []Value, ci ssa.CallInstruction) Value {
		name := e.cstr(st, a[0])
		q, t := a[1].(BV).T, a[2].(BV).T
		v := q
		if tier == "thorough" {
			v = t
		}
		if ov, ok := boundOverride[name]; ok {
			v = I64(int64(ov))
		}
		e.res.Bounds[name] = int(v.C)
		return BV{v}
	}
	harnessAPI["vBytesEq"] = func(e *Engine, st *State, a []Value, ci ssa.CallInstruction) Value {
		return Bool{e.bytesEq(st, a[0].(Slice), a[1].(Slice))}
	}
	// vBytesLess: big-endian unsigned comparison of two byte strings of concrete lengths (the shorter
	// one is zero-extended on the left), as one wide bit-vector comparison
	harnessAPI["vBytesLess"] = func(e *Engine, st *State, a []Value, ci ssa.CallInstruction) Value {
		x, y := a[0].(Slice), a[1].(Slice)
		if !x.Len.IsConst() || !y.Len.IsConst() || x.Len.C > 600 || y.Len.C > 600 {
			panic(abortSignal{"vBytesLess needs concrete lengths up to 600"})
		}
		n := x.Len.C
		if y.Len.C > n {
			n = y.Len.C
		}
		if n == 0 {
			return Bool{tFalse}
		}
		wide := func(s Slice) *Term {
			var t *Term
			pad := n - s.Len.C
			for i := uint64(0); i < n; i++ {
				var b *Term
				if i < pad {
					b = BVC(8, 0)
				} else {
					b = Select(st.obj(s.Obj).Arr, BVAdd(s.Off, U64(i-pad)))
				}
				if t == nil {
					t = b
				} else {
					t = Concat(t, b)
				}
			}
			return t
		}
		return Bool{BVUlt(wide(x), wide(y))}
	}
	// vConcreteLen: whether the length of a byte string is a constant on this path (models choose
	// between a one-query encoding and a byte-wise fallback)
	harnessAPI["vConcreteLen"] = func(e *Engine, st *State, a []Value, ci ssa.CallInstruction) Value {
		x := a[0].(Slice)
		return Bool{BoolC(x.Len.IsConst())}
	}
	harnessAPI["vObserve"] = func(e *Engine, st *State, a []Value, ci ssa.CallInstruction) Value {
		label := e.cstr(st, a[0])
		s := label + "="
		vs := a[1].(Slice)
		if vs.Obj != 0 {
			o := st.obj(vs.Obj)
			n := st.concreteSize(vs.Len, "observe")
			for i := 0; i < n; i++ {
				s += e.observeStr(st, o.Cells[i]) + ";"
			}
		}
		st.observed = append(st.observed, s)
		return nil
	}
	harnessAPI["vAllocLimit"] = func(e *Engine, st *State, a []Value, ci ssa.CallInstruction) Value {
		st.ghost["allocLimit"] = a[0]
		return nil
	}
	harnessAPI["vAllocBegin"] = func(e *Engine, st *State, a []Value, ci ssa.CallInstruction) Value {
		st.ghost["allocLimit"] = a[0]
		return nil
	}
	harnessAPI["vAllocEnd"] = func(e *Engine, st *State, a []Value, ci ssa.CallInstruction) Value {
		delete(st.ghost, "allocLimit")
		return nil
	}
	harnessAPI["vAbstractStrings"] = func(e *Engine, st *State, a []Value, ci ssa.CallInstruction) Value {
		st.ghost["abstractStrings"] = Bool{tTrue}
		return nil
	}
	// vFresh: nondeterministic bytes of a concrete length that are not harness inputs (model-internal randomness)
	harnessAPI["vFresh"] = func(e *Engine, st *State, a []Value, ci ssa.CallInstruction) Value {
		name := e.cstr(st, a[0])
		n := st.concreteSize(a[1].(BV).T, "vFresh length")
		k := st.counters["fresh:"+name]
		st.counters["fresh:"+name] = k + 1
		arr := Var(fmt.Sprintf("fresh_%s_%d", name, k), SArr)
		ln := U64(uint64(n))
		id := st.newBytes(arr, ln)
		return Slice{Obj: id, Off: U64(0), Len: ln, Cap: ln}
	}
	harnessAPI["vFreshBool"] = func(e *Engine, st *State, a []Value, ci ssa.CallInstruction) Value {
		name := e.cstr(st, a[0])
		k := st.counters["freshb:"+name]
		c := Var(fmt.Sprintf("freshb_%s_%d", name, k), SBool)
		r := st.decide(c)
		st.counters["freshb:"+name] = k + 1
		return Bool{BoolC(r)}
	}
	// vUF(name, outLen, parts...): injective uninterpreted function of the exact byte strings
	harnessAPI["vUF"] = func(e *Engine, st *State, a []Value, ci ssa.CallInstruction) Value {
		name := e.cstr(st, a[0])
		outLen := st.concreteSize(a[1].(BV).T, "vUF out length")
		t := e.ufApply(st, name, outLen*8, a[2].(Slice), true)
		arr := ZeroArr()
		for i := 0; i < outLen; i++ {
			hi := (outLen-i)*8 - 1
			arr = Store(arr, U64(uint64(i)), Extract(t, hi, hi-7))
		}
		ln := U64(uint64(outLen))
		id := st.newBytes(arr, ln)
		return Slice{Obj: id, Off: U64(0), Len: ln, Cap: ln}
	}
	harnessAPI["vUFBool"] = func(e *Engine, st *State, a []Value, ci ssa.CallInstruction) Value {
		name := e.cstr(st, a[0])
		t := e.ufApply(st, name, 0, a[1].(Slice), false)
		return Bool{t}
	}
	// vUFN: like vUF but without the injectivity axioms (ranges are still kept apart from other functions)
	harnessAPI["vUFN"] = func(e *Engine, st *State, a []Value, ci ssa.CallInstruction) Value {
		name := e.cstr(st, a[0])
		outLen := st.concreteSize(a[1].(BV).T, "vUF out length")
		t := e.ufApply(st, name, outLen*8, a[2].(Slice), false)
		arr := ZeroArr()
		for i := 0; i < outLen; i++ {
			hi := (outLen-i)*8 - 1
			arr = Store(arr, U64(uint64(i)), Extract(t, hi, hi-7))
		}
		ln := U64(uint64(outLen))
		id := st.newBytes(arr, ln)
		return Slice{Obj: id, Off: U64(0), Len: ln, Cap: ln}
	}
	harnessAPI["vStructField"] = func(e *Engine, st *State, a []Value, ci ssa.CallInstruction) Value {
		ifc := a[0].(Iface)
		i := int(a[1].(BV).T.C)
		stt, ok := ifc.T.Underlying().(*types.Struct)
		if !ok {
			panic(abortSignal{"vStructField of non-struct " + ifc.T.String()})
		}
		return Iface{T: stt.Field(i).Type(), V: ifc.V.(Struct).F[i]}
	}
	harnessAPI["vUseModels"] = func(e *Engine, st *State, a []Value, ci ssa.CallInstruction) Value {
		if st.groups == nil {
			st.groups = map[string]bool{}
		}
		st.groups[e.cstr(st, a[0])] = true
		return nil
	}
	// ghost state attached to a heap object (any pointer into it), for model-side bookkeeping
	harnessAPI["vGhostSet"] = func(e *Engine, st *State, a []Value, ci ssa.CallInstruction) Value {
		p := asPtr(a[0])
		st.ghost[fmt.Sprintf("ghost:%d:%s", p.Obj, e.cstr(st, a[1]))] = a[2]
		return nil
	}
	harnessAPI["vGhostGet"] = func(e *Engine, st *State, a []Value, ci ssa.CallInstruction) Value {
		p := asPtr(a[0])
		v, ok := st.ghost[fmt.Sprintf("ghost:%d:%s", p.Obj, e.cstr(st, a[1]))]
		if !ok {
			return Slice{Obj: 0, Off: U64(0), Len: U64(0), Cap: U64(0)}
		}
		return v
	}
	// vSameTerm: true iff the two byte strings are syntactically the same symbolic value (a
	// sufficient condition for equality that needs no solver call)
	harnessAPI["vSameTerm"] = func(e *Engine, st *State, a []Value, ci ssa.CallInstruction) Value {
		x, y := a[0].(Slice), a[1].(Slice)
		if !x.Len.IsConst() || !y.Len.IsConst() || x.Len.C != y.Len.C {
			return Bool{tFalse}
		}
		if x.Len.C == 0 {
			return Bool{tTrue}
		}
		if x.Obj == 0 || y.Obj == 0 {
			return Bool{tFalse}
		}
		xa, ya := st.obj(x.Obj).Arr, st.obj(y.Obj).Arr
		for i := uint64(0); i < x.Len.C; i++ {
			if Select(xa, BVAdd(x.Off, U64(i))) != Select(ya, BVAdd(y.Off, U64(i))) {
				return Bool{tFalse}
			}
		}
		return Bool{tTrue}
	}
	// vFieldBytes(p, i): the byte array held in field i of the struct p points to, as a slice
	// (lets models work on types they cannot name, e.g. internal packages)
	harnessAPI["vFieldBytes"] = func(e *Engine, st *State, a []Value, ci ssa.CallInstruction) Value {
		p := asPtr(a[0])
		i := int(a[1].(BV).T.C)
		if p.Obj == 0 {
			panic(goPanic{"nil-deref", "nil pointer dereference (model field access)"})
		}
		o := st.obj(p.Obj)
		v := getPath(o.Cells[p.Cell], p.Path)
		sv, ok := v.(Struct)
		if !ok {
			panic(abortSignal{"vFieldBytes on non-struct"})
		}
		av, ok := sv.F[i].(ArrayV)
		if !ok {
			panic(abortSignal{"vFieldBytes: field is not an array"})
		}
		ao := st.obj(av.Obj)
		return Slice{Obj: av.Obj, Off: U64(0), Len: ao.Len, Cap: ao.Len}
	}
	harnessAPI["vConcurrently"] = func(e *Engine, st *State, a []Value, ci ssa.CallInstruction) Value {
		cl := a[0].(Closure)
		fr := st.top()
		fr.ip++
		st.sharedMax = st.nextObj
		e.pushFrame(st, cl.Fn, nil, cl.Binds)
		st.top().discard = true
		return pushedFrame{}
	}
	harnessAPI["vSharedBegin"] = func(e *Engine, st *State, a []Value, ci ssa.CallInstruction) Value {
		st.sharedMax = st.nextObj
		return nil
	}
	harnessAPI["vSharedEnd"] = func(e *Engine, st *State, a []Value, ci ssa.CallInstruction) Value {
		st.sharedMax = 0
		return nil
	}
	// vSetField(p, v, path...): model-side write of an (unexported) struct field
	harnessAPI["vSetField"] = func(e *Engine, st *State, a []Value, ci ssa.CallInstruction) Value {
		p := asPtr(a[0])
		val := a[1]
		if ifc, ok := val.(Iface); ok && ifc.T != nil && !types.IsInterface(ifc.T) {
			// keep interface values as they are when the field is an interface; unwrap otherwise
			val = ifc
		}
		ps := a[2].(Slice)
		n := st.concreteSize(ps.Len, "vSetField path")
		path := append([]int(nil), p.Path...)
		if n > 0 {
			po := st.obj(ps.Obj)
			off := st.concreteIndex(ps.Off, 1<<20, "vSetField")
			for i := 0; i < n; i++ {
				path = append(path, int(po.Cells[off+i].(BV).T.C))
			}
		}
		w := st.wobj(p.Obj)
		old := getPath(w.Cells[p.Cell], path)
		if _, isIface := old.(Iface); !isIface {
			if ifc, ok := val.(Iface); ok {
				val = ifc.V
			}
		}
		w.Cells[p.Cell] = setPath(w.Cells[p.Cell], path, val)
		return nil
	}
	harnessAPI["vIntMode"] = func(e *Engine, st *State, a []Value, ci ssa.CallInstruction) Value {
		e.intMode = a[0].(Bool).T.IsTrue()
		return nil
	}
	// vAssertModL(out, label, parts...): little-endian value of out is
	//   1 part : part mod l
	//   3 parts: (a*b + c) mod l
	// and all integer-mode side obligations collected so far hold
	harnessAPI["vAssertModL"] = func(e *Engine, st *State, a []Value, ci ssa.CallInstruction) Value {
		wasInt := e.intMode
		e.intMode = false
		defer func() { e.intMode = wasInt }()
		label := e.cstr(st, a[1])
		le := func(v Value) *Term {
			sl := v.(Slice)
			n := st.concreteSize(sl.Len, "vAssertModL")
			arr := st.obj(sl.Obj).Arr
			var terms []*Term
			for i := 0; i < n; i++ {
				b := e.intOfByte(Select(arr, BVAdd(sl.Off, U64(uint64(i)))))
				terms = append(terms, IntOp("*", b, IntC(pow2(8*i))))
			}
			return IntOp("+", terms...)
		}
		vout := le(a[0])
		ps := a[2].(Slice)
		np := st.concreteSize(ps.Len, "vAssertModL parts")
		po := st.obj(ps.Obj)
		var want *Term
		switch np {
		case 1:
			want = le(po.Cells[0])
		case 3:
			want = IntOp("+", IntOp("*", le(po.Cells[0]), le(po.Cells[1])), le(po.Cells[2]))
		default:
			panic(abortSignal{"vAssertModL: 1 or 3 parts"})
		}
		l, _ := new(big.Int).SetString("7237005577332262213973186563042994240857116359379907606001950938285454250989", 10)
		L := IntC(l)
		ctx := append(append([]*Term(nil), st.pc...), e.intAxioms...)
		e.dischargeInt(st, ctx, label)
		goals := []struct {
			name string
			t    *Term
		}{
			{label + ":congruent-mod-l", Eq(IntOp("mod", IntOp("-", want, vout), L), IntC64(0))},
			{label + ":non-negative", IntCmp("<=", IntC64(0), vout)},
			{label + ":below-l", IntCmp("<", vout, L)},
		}
		for _, g := range goals {
			e.intGoal(st, ctx, g.t, g.name, "assert")
		}
		return nil
	}
	harnessAPI["vSteps"] = func(e *Engine, st *State, a []Value, ci ssa.CallInstruction) Value {
		st.maxSteps = int(a[0].(BV).T.C)
		return nil
	}
	harnessAPI["vExpectPanic"] = func(e *Engine, st *State, a []Value, ci ssa.CallInstruction) Value {
		st.expectPanic = true
		return nil
	}
	harnessAPI["vSymbolic"] = func(e *Engine, st *State, a []Value, ci ssa.CallInstruction) Value {
		return Bool{tTrue}
	}
	harnessAPI["vRegister"] = func(e *Engine, st *State, a []Value, ci ssa.CallInstruction) Value { return nil }
}

func asPtr(v Value) Ptr {
	if i, ok := v.(Iface); ok {
		v = i.V
	}
	p, ok := v.(Ptr)
	if !ok {
		panic(abortSignal{fmt.Sprintf("ghost state on non-pointer %T", v)})
	}
	return p
}

var tier = "quick"
var boundOverride = map[string]int{}

func (e *Engine) cstr(st *State, v Value) string {
	s, ok := e.concreteString(st, v.(Slice))
	if !ok {
		panic(abortSignal{"harness name/label must be a constant string"})
	}
	return s
}

func (e *Engine) observeStr(st *State, v Value) string {
	switch x := v.(type) {
	case Iface:
		if x.T == nil {
			return "nil"
		}
		if x.T == opaqueErrType {
			return "error"
		}
		if isErrorIface(x.T) || implementsError(x.T) {
			return "error"
		}
		return e.observeStr(st, x.V)
	case BV:
		if x.T.IsConst() {
			_ = x
			return fmt.Sprintf("%d", x.T.C)
		}
		return "sym"
	case Bool:
		if x.T.IsConst() {
			return fmt.Sprintf("%v", x.T.C == 1)
		}
		return "sym"
	case Slice:
		if x.Obj == 0 {
			return "hex:"
		}
		o := st.obj(x.Obj)
		if o.Kind != OBytes {
			n := st.concreteSize(x.Len, "observe")
			off := st.concreteIndex(x.Off, 1<<20, "observe")
			s := "["
			for i := 0; i < n; i++ {
				s += e.observeStr(st, o.Cells[off+i]) + ","
			}
			return s + "]"
		}
		if str, ok := e.concreteString(st, x); ok {
			return "hex:" + hex.EncodeToString([]byte(str))
		}
		return "sym"
	}
	return fmt.Sprintf("%T", v)
}

func implementsError(t types.Type) bool {
	ms := types.NewMethodSet(t)
	for i := 0; i < ms.Len(); i++ {
		if ms.At(i).Obj().Name() == "Error" {
			return true
		}
	}
	return false
}

// ufApply builds name_<lens>(concat of parts). Parts must have concrete lengths (case split if small).
// outBits == 0 gives a predicate. Injectivity: an inverse function per (name, length signature)
// is axiomatised for each application; different length signatures use different symbols whose
// ranges are kept apart by a tag function.
func (e *Engine) ufApply(st *State, name string, outBits int, parts Slice, injective bool) *Term {
	np := st.concreteSize(parts.Len, "vUF parts")
	var po *Obj
	poff := 0
	if parts.Obj != 0 {
		po = st.obj(parts.Obj)
		poff = st.concreteIndex(parts.Off, 1<<20, "vUF parts")
	}
	// decisions first: concretise every length
	lens := make([]int, np)
	for i := 0; i < np; i++ {
		sl := po.Cells[poff+i].(Slice)
		lens[i] = st.concreteSize(sl.Len, "vUF part length")
	}
	sig := fmt.Sprintf("%s_o%d", name, outBits/8)
	var args []*Term
	for i := 0; i < np; i++ {
		sig += fmt.Sprintf("_%d", lens[i])
		if lens[i] == 0 {
			continue
		}
		sl := po.Cells[poff+i].(Slice)
		arr := st.obj(sl.Obj).Arr
		var bv *Term
		for j := 0; j < lens[i]; j++ {
			b := Select(arr, BVAdd(sl.Off, U64(uint64(j))))
			if bv == nil {
				bv = b
			} else {
				bv = Concat(bv, b)
			}
		}
		args = append(args, bv)
	}
	if outBits == 0 {
		if len(args) == 0 {
			return Var("ufp_"+sig, SBool)
		}
		return UF("ufp_"+sig, SBool, args...)
	}
	var t *Term
	if len(args) == 0 {
		t = Var("uf_"+sig, SBV(outBits))
	} else {
		t = UF("uf_"+sig, SBV(outBits), args...)
	}
	// injectivity: inverse per argument, and a tag that separates length signatures
	// functions named perm_* are permutations of their domain (e.g. inversion): injective, but
	// their range is not kept apart from other functions' ranges
	perm := strings.HasPrefix(name, "perm_")
	if len(args) > 0 {
		if !perm {
			taggedUF["uf_"+sig] = true
		}
		if injective {
			injectiveUF["uf_"+sig] = true
		}
	}
	if injective && !noInverseAxioms {
		for i, a := range args {
			inv := UF(fmt.Sprintf("ufinv%d_%s", i, sig), a.S, t)
			st.addPC(Eq(inv, a))
		}
	}
	// ranges of different function symbols (and of different input-length signatures of one
	// function) with the same output width are disjoint: ideal, unrelated functions
	if perm {
		return t
	}
	tagID, ok := ufTags[sig]
	if !ok {
		tagID = len(ufTags) + 1
		ufTags[sig] = tagID
	}
	st.addPC(Eq(UF(fmt.Sprintf("uftag_%d", outBits), SBV(16), t), BVC(16, uint64(tagID))))
	return t
}

var ufTags = map[string]int{}
var noInverseAxioms = true

// ---------- inputs

var concreteInputs map[string]interface{} // concrete mode: name -> value

func (e *Engine) inputName(st *State, name string) string {
	n := st.counters["in:"+name]
	if n == 0 {
		return name
	}
	return fmt.Sprintf("%s#%d", name, n)
}

func (e *Engine) input(st *State, name, kind string, s Sort) *Term {
	full := e.inputName(st, name)
	st.counters["in:"+name]++
	var t *Term
	if concreteInputs != nil {
		t = concreteScalar(full, s)
	} else {
		t = Var("in_"+full, s)
	}
	st.inputs = append(st.inputs, InputRec{Name: full, Kind: kind, T: t})
	return t
}

func concreteScalar(name string, s Sort) *Term {
	v, ok := concreteInputs[name]
	if !ok {
		panic(abortSignal{"concrete mode: missing input " + name})
	}
	switch x := v.(type) {
	case bool:
		return BoolC(x)
	case float64:
		return BVC(s.W, uint64(int64(x)))
	case string:
		bi, _ := newBig(x, 10)
		if s.K == KBool {
			return BoolC(x == "true")
		}
		return BVBig(s.W, bi)
	}
	panic(abortSignal{"concrete mode: bad input " + name})
}

func (e *Engine) inputBytes(st *State, name string, lo, hi, spare int) Value {
	full := e.inputName(st, name)
	st.counters["in:"+name]++
	if concreteInputs != nil {
		m, ok := concreteInputs[full].(map[string]interface{})
		if !ok {
			panic(abortSignal{"concrete mode: missing input " + full})
		}
		b, _ := hex.DecodeString(m["hex"].(string))
		arr := ZeroArr()
		for i, c := range b {
			if c != 0 {
				arr = Store(arr, U64(uint64(i)), BVC(8, uint64(c)))
			}
		}
		n := U64(uint64(len(b)))
		id := st.newObj(&Obj{Kind: OBytes, Arr: arr, Len: n, Tag: "caller", Name: full})
		return Slice{Obj: id, Off: U64(0), Len: n, Cap: n}
	}
	arr := Var("in_"+full+"_arr", SArr)
	var ln *Term
	if lo == hi {
		ln = U64(uint64(lo))
	} else {
		ln = Var("in_"+full+"_len", SBV(64))
		varBounds["in_"+full+"_len"] = uint64(hi)
		st.addPC(And(BVUle(U64(uint64(lo)), ln), BVUle(ln, U64(uint64(hi)))))
	}
	cp := ln
	var capT *Term
	if spare > 0 {
		capT = Var("in_"+full+"_spare", SBV(64))
		varBounds["in_"+full+"_spare"] = uint64(spare)
		st.addPC(BVUle(capT, U64(uint64(spare))))
		cp = BVAdd(ln, capT)
	}
	id := st.newObj(&Obj{Kind: OBytes, Arr: arr, Len: cp, Tag: "caller", Name: full})
	st.inputs = append(st.inputs, InputRec{Name: full, Kind: "bytes", T: arr, Len: ln, Max: hi + spare, Cap: capT})
	return Slice{Obj: id, Off: U64(0), Len: ln, Cap: cp}
}

// model queries pc ∧ extra and extracts the values of all registered inputs.
func (e *Engine) model(st *State, extra *Term, timeout int) (Result, map[string]interface{}) {
	var want []*Term
	for _, in := range st.inputs {
		switch in.Kind {
		case "bytes":
			want = append(want, in.Len)
			if in.Cap != nil {
				want = append(want, in.Cap)
			}
			for i := 0; i < in.Max; i++ {
				want = append(want, Select(in.T, U64(uint64(i))))
			}
		default:
			want = append(want, in.T)
		}
	}
	res, vals := e.solver.Model(st.pc, extra, timeout, want)
	if res != Sat {
		return res, nil
	}
	cex := map[string]interface{}{}
	k := 0
	for _, in := range st.inputs {
		switch in.Kind {
		case "bytes":
			ln := vals[k]
			k++
			n := 0
			if ln != nil {
				n = int(ln.C)
			}
			spare := 0
			if in.Cap != nil {
				if vals[k] != nil {
					spare = int(vals[k].C)
				}
				k++
			}
			b := make([]byte, 0, n+spare)
			for i := 0; i < in.Max; i++ {
				if i < n+spare && vals[k] != nil {
					b = append(b, byte(vals[k].C))
				} else if i < n+spare {
					b = append(b, 0)
				}
				k++
			}
			m := map[string]interface{}{"hex": hex.EncodeToString(b[:min(n, len(b))]), "len": n}
			if in.Cap != nil {
				m["spare"] = hex.EncodeToString(b[min(n, len(b)):])
			}
			cex[in.Name] = m
		case "bool":
			cex[in.Name] = vals[k] != nil && vals[k].C == 1
			k++
		default:
			if vals[k] == nil {
				cex[in.Name] = "0"
			} else if in.Kind == "int" {
				cex[in.Name] = fmt.Sprintf("%d", vals[k].SVal())
			} else {
				cex[in.Name] = fmt.Sprintf("%d", vals[k].C)
			}
			k++
		}
	}
	return res, cex
}

// ---------- assertions and path ends

func (e *Engine) assertion(st *State, c *Term, label, kind, msg string) {
	pos := posOf(st, e)
	rec := AssertRec{Label: label, Pos: pos, Kind: kind, Msg: msg}
	if c.IsTrue() {
		rec.Result = "proved"
		e.addAssert(rec)
		return
	}
	if v, ok := st.decided[condKey(c)]; ok && !c.IsConst() {
		if (c.Op == "not") != v {
			rec.Result = "proved"
			e.addAssert(rec)
			return
		}
	}
	r, cex := e.model(st, Not(c), e.cfg.AssertTimeoutMs)
	switch r {
	case Unsat:
		rec.Result = "proved"
		e.dumpVC(st, Not(c), label)
	case Sat:
		rec.Result = "violated"
		rec.Cex = cex
		if os.Getenv("GOSMT_DUMP_PC") != "" {
			for i, c := range st.pc {
				fmt.Fprintf(os.Stderr, "   pc[%d] %s\n", i, trunc(c.String(), 260))
			}
			fmt.Fprintf(os.Stderr, "   goal %s\n", trunc(c.String(), 400))
		}
		if st.unchecked || st.degraded {
			rec.Msg += " [path has unchecked branches or havocked calls]"
		}
	default:
		rec.Result = "unknown"
	}
	e.addAssert(rec)
	if r == Sat {
		if c.IsFalse() {
			panic(killSignal{"assertion failed on every input of this path"})
		}
		// continue on the inputs that satisfy it
		if e.solver.Check(st.pc, c, e.cfg.BranchTimeoutMs) == Unsat {
			panic(killSignal{"assertion failed on every input of this path"})
		}
	}
	st.assume(c)
}

func (e *Engine) addAssert(rec AssertRec) {
	// aggregate proved ones per label to keep the report small
	if rec.Result == "proved" {
		for i := range e.res.Asserts {
			a := &e.res.Asserts[i]
			if a.Result == "proved" && a.Label == rec.Label && a.Kind == rec.Kind {
				a.Msg = fmt.Sprintf("%d", atoiDefault(a.Msg, 1)+1)
				return
			}
		}
		rec.Msg = "1"
	}
	e.res.Asserts = append(e.res.Asserts, rec)
}

func atoiDefault(s string, d int) int {
	var n int
	if _, err := fmt.Sscanf(s, "%d", &n); err != nil {
		return d
	}
	return n
}

var vcDir string
var vcCount = map[string]int{}

func (e *Engine) dumpVC(st *State, extra *Term, label string) {
	if vcDir == "" {
		return
	}
	key := e.res.Name + "/" + label
	vcCount[key]++
	if vcCount[key] > 3 {
		return
	}
	as := append(append([]*Term(nil), st.pc...), extra)
	txt := Script(as, "; harness "+e.res.Name+" label "+label+" expected unsat\n")
	writeFile(fmt.Sprintf("%s/%s__%s__%d.smt2", vcDir, e.res.Name, sanitize(label), vcCount[key]), txt)
}

func sanitize(s string) string {
	return strings.Map(func(r rune) rune {
		if r >= 'a' && r <= 'z' || r >= 'A' && r <= 'Z' || r >= '0' && r <= '9' || r == '_' || r == '-' {
			return r
		}
		return '_'
	}, s)
}

func (e *Engine) endPath(st *State, end PathEnd) {
	e.res.Steps += st.steps
	if end.Kind == "kill" && os.Getenv("GOSMT_KILLLOG") != "" {
		fmt.Fprintf(os.Stderr, "KILL %s at %s | %s\n", end.Msg, posOf(st, e), e.stackTrace(st))
	}
	switch end.Kind {
	case "return":
		e.res.Paths++
		if len(st.observed) > 0 {
			e.res.Observed = append(e.res.Observed, st.observed)
		}
	case "panic":
		e.res.Paths++
		if st.expectPanic {
			return
		}
		pos := posOf(st, e)
		rec := AssertRec{Label: "panic@" + pos, Pos: pos, Kind: "panic", Msg: end.Msg + " | " + e.stackTrace(st)}
		if strings.HasPrefix(end.Msg, "alloc:") {
			rec.Kind = "alloc"
			rec.Label = "alloc@" + pos
		}
		r, cex := e.model(st, nil, e.cfg.AssertTimeoutMs)
		switch r {
		case Sat:
			rec.Result = "violated"
			rec.Cex = cex
		case Unsat:
			return // infeasible after all
		default:
			rec.Result = "unknown"
		}
		if st.unchecked || st.degraded {
			rec.Msg += " [path has unchecked branches or havocked calls]"
		}
		e.res.Asserts = append(e.res.Asserts, rec)
	case "abort":
		e.res.Paths++
		e.res.Aborts = append(e.res.Aborts, end.Msg+" at "+posOf(st, e)+" | "+e.stackTrace(st))
	case "budget":
		e.res.Paths++
		rec := AssertRec{Label: "budget@" + posOf(st, e), Kind: "budget", Msg: end.Msg, Result: "unknown"}
		if r, cex := e.model(st, nil, e.cfg.AssertTimeoutMs); r == Sat {
			rec.Cex = cex
		}
		e.res.Asserts = append(e.res.Asserts, rec)
	case "kill":
		if strings.HasPrefix(end.Msg, "UNWIND") {
			if _, ok := st.ghost["unwindAssume"]; ok {
				e.res.Truncated++
				return
			}
			e.res.Paths++
			pos := strings.TrimPrefix(end.Msg, "UNWIND ")
			rec := AssertRec{Label: "unwind@" + pos, Pos: pos, Kind: "unwind", Msg: fmt.Sprintf("loop bound %d reached | %s", st.unwind, e.stackTrace(st))}
			r, cex := e.model(st, nil, e.cfg.AssertTimeoutMs)
			if r == Unsat {
				return
			}
			rec.Result = "unknown"
			rec.Cex = cex
			e.res.Asserts = append(e.res.Asserts, rec)
		}
	}
}

func (r *HarnessResult) finalize() {
	sort.Strings(r.Encoded)
	sort.Strings(r.Stubs)
	sort.Strings(r.Degraded)
	st := "proved"
	for _, a := range r.Asserts {
		switch a.Result {
		case "violated":
			st = "violated"
		case "unknown":
			if st == "proved" {
				st = "inconclusive"
			}
		}
	}
	if len(r.Aborts) > 0 && st == "proved" {
		st = "inconclusive"
	}
	if st == "proved" && r.Paths == 0 {
		st = "inconclusive"
	}
	r.Status = st
}

// intGoal decides ctx => goal with z3 (incremental) and, if that is inconclusive, cvc5 on a file.
func (e *Engine) intGoal(st *State, ctx []*Term, goal *Term, label, kind string) string {
	rec := AssertRec{Label: label, Pos: posOf(st, e), Kind: kind}
	r := e.solver.Check(ctx, Not(goal), 20000)
	how := "z3"
	if r == Unknown {
		r = runCVC5(append(append([]*Term(nil), ctx...), Not(goal)), 60)
		how = "cvc5"
	}
	switch r {
	case Unsat:
		rec.Result = "proved"
	case Sat:
		rec.Result = "violated"
		rec.Msg = "decided by " + how
		_, rec.Cex = e.model(st, nil, 5000)
	default:
		rec.Result = "unknown"
		rec.Msg = "neither z3 (20 s) nor cvc5 (60 s) decided this obligation"
	}
	e.addAssert(rec)
	return rec.Result
}

// dischargeInt proves the collected fits-in-type / bit-disjointness obligations in batches.
func (e *Engine) dischargeInt(st *State, ctx []*Term, label string) {
	obs := e.intObligs
	e.intObligs = nil
	const batch = 40
	n := 0
	for i := 0; i < len(obs); i += batch {
		j := i + batch
		if j > len(obs) {
			j = len(obs)
		}
		var ts []*Term
		for _, o := range obs[i:j] {
			ts = append(ts, o.T)
		}
		res := e.intGoal(st, ctx, And(ts...), fmt.Sprintf("%s:int-obligations[%d..%d)", label, i, j), "assert")
		if res != "proved" {
			// split to find the culprit
			for _, o := range obs[i:j] {
				e.intGoal(st, ctx, o.T, fmt.Sprintf("%s:%s@%s", label, o.Kind, o.Pos), "assert")
			}
		}
		n += j - i
	}
	e.res.Bounds["int_obligations"] += n
}

func runCVC5(asserts []*Term, seconds int) Result {
	txt := Script(asserts, "(set-logic ALL)\n")
	f, err := os.CreateTemp("/verif/tmp", "cvc5_*.smt2")
	if err != nil {
		return Unknown
	}
	f.WriteString(txt)
	f.Close()
	defer os.Remove(f.Name())
	cmd := exec.Command("timeout", fmt.Sprintf("%d", seconds+5), "cvc5", fmt.Sprintf("--tlimit=%d", seconds*1000), f.Name())
	t0 := time.Now()
	out, _ := cmd.CombinedOutput()
	_ = t0
	s := string(out)
	switch {
	case len(s) >= 5 && s[:5] == "unsat":
		return Unsat
	case len(s) >= 3 && s[:3] == "sat":
		return Sat
	}
	return Unknown
}
