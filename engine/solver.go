package main

// Solver driver: one long-lived solver process over stdin/stdout, incremental
// assertion stack shared by prefix between consecutive queries.

import (
	"bufio"
	"fmt"
	"io"
	"os"
	"os/exec"
	"strings"
	"time"
)

type Result int

const (
	Unsat Result = iota
	Sat
	Unknown
)

func (r Result) String() string { return [...]string{"unsat", "sat", "unknown"}[r] }

type Solver struct {
	cmd     *exec.Cmd
	in      io.WriteCloser
	out     *bufio.Reader
	printer *Printer
	buf     strings.Builder
	stack   []*Term // asserted conjuncts, one push level each
	ndecl   int
	nax     int
	log     io.Writer

	NSat, NUnsat, NUnknown int
	Time                   time.Duration
	errs                   []string
	timeoutMs              int
	pushed                 bool
	argv                   []string
}

func NewSolver(argv []string, logPath string) (*Solver, error) {
	s := &Solver{argv: argv}
	if logPath != "" {
		f, err := os.Create(logPath)
		if err == nil {
			s.log = f
		}
	}
	if err := s.start(); err != nil {
		return nil, err
	}
	return s, nil
}

func (s *Solver) start() error {
	cmd := exec.Command(s.argv[0], s.argv[1:]...)
	in, err := cmd.StdinPipe()
	if err != nil {
		return err
	}
	out, err := cmd.StdoutPipe()
	if err != nil {
		return err
	}
	cmd.Stderr = cmd.Stdout
	if err := cmd.Start(); err != nil {
		return err
	}
	s.cmd, s.in, s.out = cmd, in, bufio.NewReaderSize(out, 1<<20)
	s.printer = &Printer{defined: map[int]bool{}, out: &s.buf}
	s.stack = nil
	s.ndecl, s.nax = 0, 0
	s.timeoutMs = 0
	s.send("(set-option :global-declarations true)\n")
	s.send("(set-option :produce-models true)\n")
	return nil
}

func (s *Solver) Restart() {
	if s.cmd != nil {
		s.in.Close()
		s.cmd.Process.Kill()
		s.cmd.Wait()
	}
	if err := s.start(); err != nil {
		panic(err)
	}
}

func (s *Solver) Close() {
	if s.cmd != nil {
		fmt.Fprintf(s.in, "(exit)\n")
		s.in.Close()
		done := make(chan struct{})
		go func() { s.cmd.Wait(); close(done) }()
		select {
		case <-done:
		case <-time.After(2 * time.Second):
			s.cmd.Process.Kill()
		}
		s.cmd = nil
	}
}

func (s *Solver) send(str string) {
	if s.log != nil {
		io.WriteString(s.log, str)
	}
	io.WriteString(s.in, str)
}

// flushDecls emits pending declarations, definitions and global axioms.
func (s *Solver) flushDecls() {
	for s.ndecl < len(TS.decls) {
		s.send(TS.decls[s.ndecl] + "\n")
		s.ndecl++
	}
}

func (s *Solver) ref(t *Term) string {
	s.flushDecls()
	s.buf.Reset()
	r := s.printer.ref(t)
	s.flushDecls() // refs may create no new decls, but be safe
	if s.buf.Len() > 0 {
		s.send(s.buf.String())
		s.buf.Reset()
	}
	return r
}

func (s *Solver) syncAxioms() {
	if s.nax < len(TS.axioms) {
		// axioms live at the base level: pop everything first
		s.popTo(0)
		for s.nax < len(TS.axioms) {
			r := s.ref(TS.axioms[s.nax])
			s.send("(assert " + r + ")\n")
			s.nax++
		}
	}
}

func (s *Solver) popTo(n int) {
	if len(s.stack) > n {
		s.send(fmt.Sprintf("(pop %d)\n", len(s.stack)-n))
		s.stack = s.stack[:n]
	}
}

func (s *Solver) setStack(pc []*Term) {
	s.syncAxioms()
	k := 0
	for k < len(pc) && k < len(s.stack) && pc[k] == s.stack[k] {
		k++
	}
	s.popTo(k)
	for _, c := range pc[k:] {
		r := s.ref(c)
		s.send("(push 1)\n(assert " + r + ")\n")
		s.stack = append(s.stack, c)
	}
}

func (s *Solver) readLine() (string, error) {
	line, err := s.out.ReadString('\n')
	return strings.TrimRight(line, "\r\n"), err
}

func (s *Solver) setTimeout(ms int) {
	if ms != s.timeoutMs {
		s.send(fmt.Sprintf("(set-option :timeout %d)\n", ms))
		s.timeoutMs = ms
	}
}

// Check decides pc ∧ extra.
func (s *Solver) Check(pc []*Term, extra *Term, timeoutMs int) Result {
	return s.check(pc, extra, timeoutMs, false)
}

func (s *Solver) check(pc []*Term, extra *Term, timeoutMs int, keep bool) Result {
	s.pushed = false
	if extra != nil && extra.IsFalse() {
		return Unsat
	}
	for _, c := range pc {
		if c.IsFalse() {
			return Unsat
		}
	}
	s.pushed = true
	t0 := time.Now()
	s.setStack(pc)
	s.setTimeout(timeoutMs)
	if extra != nil && !extra.IsTrue() {
		r := s.ref(extra)
		s.send("(push 1)\n(assert " + r + ")\n")
	} else {
		s.send("(push 1)\n")
	}
	s.send("(check-sat)\n")
	res := Unknown
	for {
		line, err := s.readLine()
		if err == nil && strings.TrimSpace(line) == "" {
			continue
		}
		if err != nil {
			s.errs = append(s.errs, "solver died: "+err.Error())
			s.Restart()
			s.NUnknown++
			s.Time += time.Since(t0)
			return Unknown
		}
		if line == "sat" {
			res = Sat
			break
		}
		if line == "unsat" {
			res = Unsat
			break
		}
		if line == "unknown" || line == "timeout" {
			res = Unknown
			break
		}
		if strings.Contains(line, "error") {
			s.errs = append(s.errs, line)
			if len(s.errs) < 5 {
				fmt.Fprintln(os.Stderr, "SOLVER ERROR:", line)
			}
			// keep reading until a verdict shows up
			continue
		}
	}
	if !keep {
		s.send("(pop 1)\n")
	}
	switch res {
	case Sat:
		s.NSat++
	case Unsat:
		s.NUnsat++
	default:
		s.NUnknown++
	}
	s.Time += time.Since(t0)
	if d := time.Since(t0); d > 2*time.Second && slowLog {
		fmt.Fprintf(os.Stderr, "  slow query %.1fs -> %s (pc=%d conj, extra size=%d)\n", d.Seconds(), res, len(pc), func() int { if extra != nil { return extra.size }; return 0 }())
	}
	return res
}

var slowLog = false

// Model decides pc ∧ extra and, if sat, evaluates the given terms.
func (s *Solver) Model(pc []*Term, extra *Term, timeoutMs int, want []*Term) (Result, []*Term) {
	nerr := len(s.errs)
	res := s.check(pc, extra, timeoutMs, true)
	if !s.pushed {
		return res, nil
	}
	defer s.send("(pop 1)\n")
	if res != Sat || len(want) == 0 {
		return res, nil
	}
	if len(s.errs) != nerr {
		return Unknown, nil
	}
	vals := make([]*Term, len(want))
	// batch get-value
	const batch = 200
	for i := 0; i < len(want); i += batch {
		j := i + batch
		if j > len(want) {
			j = len(want)
		}
		var sb strings.Builder
		sb.WriteString("(get-value (")
		for _, w := range want[i:j] {
			sb.WriteString(s.ref(w))
			sb.WriteByte(' ')
		}
		sb.WriteString("))\n")
		s.send(sb.String())
		txt, err := s.readSexp()
		if err != nil {
			s.errs = append(s.errs, "get-value: "+err.Error())
			return Unknown, nil
		}
		sx, _ := parseSexp(txt)
		if sx == nil || len(sx.list) != j-i {
			s.errs = append(s.errs, "get-value: unexpected "+txt)
			return Unknown, nil
		}
		for k, pair := range sx.list {
			if len(pair.list) != 2 {
				continue
			}
			vals[i+k] = sexpToConst(pair.list[1], want[i+k].S)
		}
	}
	return res, vals
}

// readSexp reads one balanced s-expression from the solver output.
func (s *Solver) readSexp() (string, error) {
	var sb strings.Builder
	depth := 0
	started := false
	inBar := false
	for {
		b, err := s.out.ReadByte()
		if err != nil {
			return sb.String(), err
		}
		sb.WriteByte(b)
		if inBar {
			if b == '|' {
				inBar = false
			}
			continue
		}
		switch b {
		case '|':
			inBar = true
		case '(':
			depth++
			started = true
		case ')':
			depth--
		}
		if started && depth == 0 {
			// consume the newline that follows, if already buffered
			for s.out.Buffered() > 0 {
				p, err := s.out.Peek(1)
				if err != nil || p[0] != '\n' && p[0] != '\r' {
					break
				}
				s.out.ReadByte()
			}
			return sb.String(), nil
		}
	}
}

type sexp struct {
	atom string
	list []*sexp
	isl  bool
}

func parseSexp(s string) (*sexp, string) {
	s = strings.TrimLeft(s, " \t\r\n")
	if s == "" {
		return nil, ""
	}
	if s[0] == '(' {
		s = s[1:]
		n := &sexp{isl: true}
		for {
			s = strings.TrimLeft(s, " \t\r\n")
			if s == "" {
				return n, ""
			}
			if s[0] == ')' {
				return n, s[1:]
			}
			var c *sexp
			c, s = parseSexp(s)
			if c == nil {
				return n, s
			}
			n.list = append(n.list, c)
		}
	}
	if s[0] == '|' {
		j := strings.IndexByte(s[1:], '|')
		if j < 0 {
			return &sexp{atom: s}, ""
		}
		return &sexp{atom: s[:j+2]}, s[j+2:]
	}
	j := 0
	for j < len(s) && !strings.ContainsRune(" \t\r\n()", rune(s[j])) {
		j++
	}
	return &sexp{atom: s[:j]}, s[j:]
}

func sexpToConst(x *sexp, srt Sort) *Term {
	switch srt.K {
	case KBool:
		return BoolC(x.atom == "true")
	case KBV:
		a := x.atom
		if strings.HasPrefix(a, "#x") {
			v, ok := newBig(a[2:], 16)
			if ok {
				return BVBig(srt.W, v)
			}
		}
		if strings.HasPrefix(a, "#b") {
			v, ok := newBig(a[2:], 2)
			if ok {
				return BVBig(srt.W, v)
			}
		}
		if x.isl && len(x.list) == 3 && x.list[0].atom == "_" && strings.HasPrefix(x.list[1].atom, "bv") {
			v, ok := newBig(x.list[1].atom[2:], 10)
			if ok {
				return BVBig(srt.W, v)
			}
		}
	case KInt:
		if x.isl && len(x.list) == 2 && x.list[0].atom == "-" {
			v, ok := newBig(x.list[1].atom, 10)
			if ok {
				return IntC(v.Neg(v))
			}
		}
		v, ok := newBig(x.atom, 10)
		if ok {
			return IntC(v)
		}
	}
	return nil
}
