package main

import (
	"fmt"
	"go/types"

	"golang.org/x/tools/go/ssa"
)

// ---------- signals (panics used for control flow inside one instruction)

type forkSignal struct{ cond *Term }
type goPanic struct { // a Go-level panic in the program under analysis
	kind string
	msg  string
}
type abortSignal struct{ reason string } // path cannot be continued soundly: inconclusive
type killSignal struct{ reason string }  // path is infeasible / ends silently

type Deferred struct {
	fn   Value // Closure
	args []Value
}

type Frame struct {
	fn      *ssa.Function
	info    *FnInfo
	env     []Value
	block   *ssa.BasicBlock
	prev    *ssa.BasicBlock
	ip      int
	defers  []Deferred
	visits  map[int]int
	retry   bool // on return re-execute caller's instruction (package init)
	discard bool // result dropped (deferred call)
	runningDefers bool
	results []Value // pending results while running defers at Return
	hasRes  bool
	native  string // continuation tag for native helpers
}

type FnInfo struct {
	idx map[ssa.Value]int
	n   int
}

type InputRec struct {
	Name string
	Kind string // "u64","int","bool","bytes"
	T    *Term  // scalar term or array term
	Len  *Term  // for bytes
	Off  int
	Max  int
	Cap  *Term // for buffers: spare
}

type AssertRec struct {
	Label  string
	Pos    string
	Result string // "proved","violated","unknown"
	Cex    map[string]interface{}
	Kind   string // "assert","panic","unwind","alloc"
	Msg    string
}

type State struct {
	id      int
	epoch   int
	frames  []*Frame
	heap    map[int]*Obj
	nextObj int
	pc      []*Term
	decided map[int]bool
	eqc     map[int]*Term // terms known equal to a constant on this path
	globals map[*ssa.Global]int
	inited  map[*ssa.Package]bool
	unwind  int
	degraded  bool
	unchecked bool
	counters map[string]int
	inputs   []InputRec
	reached  []string
	observed []string
	steps    int
	maxSteps int
	seq, sub int
	onceDone map[string]bool
	released map[int]bool // objects handed back to a sync.Pool: any later use by this call is a use after Put
	expectPanic bool
	ghost    map[string]Value
	groups   map[string]bool
	sharedMax, onceDepth, lockDepth int
	lateGlobals [][2]int
	accesses []Access // C17
	thread   int
	locks    []string
	inOnce   []string
	allocBoundOff bool
	calls    []string // names of pat-go functions entered on this path (for evidence)
}

type Access struct {
	Thread int
	Obj    int
	Cell   int
	Path   string
	Write  bool
	Locks  []string
	InOnce []string
	AfterOnce []string
	Pos    string
}

func (st *State) clone(newID int) *State {
	n := *st
	n.id = newID
	n.frames = make([]*Frame, len(st.frames))
	for i, f := range st.frames {
		nf := *f
		nf.env = append([]Value(nil), f.env...)
		nf.defers = append([]Deferred(nil), f.defers...)
		nf.visits = make(map[int]int, len(f.visits))
		for k, v := range f.visits {
			nf.visits[k] = v
		}
		nf.results = append([]Value(nil), f.results...)
		n.frames[i] = &nf
	}
	n.heap = make(map[int]*Obj, len(st.heap))
	for k, v := range st.heap {
		n.heap[k] = v
	}
	n.pc = append([]*Term(nil), st.pc...)
	n.decided = make(map[int]bool, len(st.decided))
	for k, v := range st.decided {
		n.decided[k] = v
	}
	n.eqc = make(map[int]*Term, len(st.eqc))
	for k, v := range st.eqc {
		n.eqc[k] = v
	}
	n.globals = make(map[*ssa.Global]int, len(st.globals))
	for k, v := range st.globals {
		n.globals[k] = v
	}
	n.inited = make(map[*ssa.Package]bool, len(st.inited))
	for k, v := range st.inited {
		n.inited[k] = v
	}
	n.counters = make(map[string]int, len(st.counters))
	for k, v := range st.counters {
		n.counters[k] = v
	}
	if len(st.released) > 0 {
		n.released = make(map[int]bool, len(st.released))
		for k, v := range st.released {
			n.released[k] = v
		}
	}
	n.onceDone = make(map[string]bool, len(st.onceDone))
	for k, v := range st.onceDone {
		n.onceDone[k] = v
	}
	n.ghost = make(map[string]Value, len(st.ghost))
	for k, v := range st.ghost {
		n.ghost[k] = v
	}
	n.groups = make(map[string]bool, len(st.groups))
	for k, v := range st.groups {
		n.groups[k] = v
	}
	n.lateGlobals = append([][2]int(nil), st.lateGlobals...)
	n.inputs = append([]InputRec(nil), st.inputs...)
	n.reached = append([]string(nil), st.reached...)
	n.observed = append([]string(nil), st.observed...)
	n.accesses = append([]Access(nil), st.accesses...)
	n.locks = append([]string(nil), st.locks...)
	n.inOnce = append([]string(nil), st.inOnce...)
	n.calls = append([]string(nil), st.calls...)
	return &n
}

var epochCounter int

func newEpoch() int { epochCounter++; return epochCounter }

// ---------- heap access

func (st *State) obj(id int) *Obj {
	o := st.heap[id]
	if o == nil {
		panic(abortSignal{fmt.Sprintf("dangling object %d", id)})
	}
	return o
}

func (st *State) wobj(id int) *Obj {
	o := st.obj(id)
	if o.Epoch != st.epoch {
		o = o.clone(st.epoch)
		st.heap[id] = o
	}
	return o
}

func (st *State) newObj(o *Obj) int {
	st.nextObj++
	o.Epoch = st.epoch
	st.heap[st.nextObj] = o
	return st.nextObj
}

func (st *State) newBytes(arr, ln *Term) int {
	return st.newObj(&Obj{Kind: OBytes, Arr: arr, Len: ln})
}

func (st *State) newCells(elem types.Type, cells []Value) int {
	return st.newObj(&Obj{Kind: OCells, Cells: cells, Elem: elem})
}

// allocFor creates an object holding one value of type t (arrays become array objects) and returns a pointer to it.
func (st *State) allocFor(t types.Type) Ptr {
	if at, ok := t.Underlying().(*types.Array); ok {
		id := st.newArray(at)
		return Ptr{Obj: id, Cell: -1}
	}
	id := st.newCells(t, []Value{st.zero(t)})
	return Ptr{Obj: id, Cell: 0}
}

func (st *State) newArray(at *types.Array) int {
	n := int(at.Len())
	if isByteType(at.Elem()) {
		return st.newBytes(ZeroArr(), U64(uint64(n)))
	}
	cells := make([]Value, n)
	for i := range cells {
		cells[i] = st.zero(at.Elem())
	}
	return st.newCells(at.Elem(), cells)
}

func (st *State) zero(t types.Type) Value {
	switch u := t.Underlying().(type) {
	case *types.Basic:
		if w, _, ok := intWidth(t); ok {
			return BV{BVC(w, 0)}
		}
		if isBoolType(t) {
			return Bool{tFalse}
		}
		if isStringType(t) {
			return Slice{Obj: 0, Off: U64(0), Len: U64(0), Cap: U64(0)}
		}
		if u.Kind() == types.UnsafePointer {
			return Ptr{}
		}
		if u.Kind() == types.UntypedNil || u.Kind() == types.Invalid {
			return nil
		}
		return Opaque{Tag: "float"}
	case *types.Slice:
		return Slice{Obj: 0, Off: U64(0), Len: U64(0), Cap: U64(0)}
	case *types.Pointer:
		return Ptr{}
	case *types.Struct:
		f := make([]Value, u.NumFields())
		for i := range f {
			f[i] = st.zero(u.Field(i).Type())
		}
		return Struct{f}
	case *types.Array:
		return ArrayV{st.newArray(u)}
	case *types.Interface:
		return Iface{}
	case *types.Map:
		return MapV{}
	case *types.Signature:
		return Closure{}
	case *types.Chan:
		return Opaque{Tag: "chan"}
	case *types.Tuple:
		v := make([]Value, u.Len())
		for i := range v {
			v[i] = st.zero(u.At(i).Type())
		}
		return Tuple{v}
	}
	panic(abortSignal{fmt.Sprintf("zero value of %s", t)})
}

// deepCopy copies array objects nested in a value (value semantics).
func (st *State) deepCopy(v Value) Value {
	switch x := v.(type) {
	case ArrayV:
		o := st.obj(x.Obj)
		n := o.clone(st.epoch)
		n.Tag = ""
		n.ReadOnly = false
		if n.Kind == OCells {
			for i, c := range n.Cells {
				n.Cells[i] = st.deepCopy(c)
			}
		}
		return ArrayV{st.newObj(n)}
	case Struct:
		ch := false
		nf := make([]Value, len(x.F))
		for i, f := range x.F {
			nf[i] = st.deepCopy(f)
			if !sameVal(nf[i], f) {
				ch = true
			}
		}
		if !ch {
			return x
		}
		return Struct{nf}
	case Tuple:
		nf := make([]Value, len(x.V))
		for i, f := range x.V {
			nf[i] = st.deepCopy(f)
		}
		return Tuple{nf}
	}
	return v
}

func sameVal(a, b Value) bool {
	switch x := a.(type) {
	case ArrayV:
		y, ok := b.(ArrayV)
		return ok && x.Obj == y.Obj
	case Struct:
		y, ok := b.(Struct)
		if !ok || len(x.F) != len(y.F) {
			return false
		}
		for i := range x.F {
			if !sameVal(x.F[i], y.F[i]) {
				return false
			}
		}
		return true
	case Tuple:
		return false
	}
	return true // scalars are immutable; treated as same for copy purposes
}

func containsArray(v Value) bool {
	switch x := v.(type) {
	case ArrayV:
		return true
	case Struct:
		for _, f := range x.F {
			if containsArray(f) {
				return true
			}
		}
	case Tuple:
		for _, f := range x.V {
			if containsArray(f) {
				return true
			}
		}
	}
	return false
}

// getPath reads the sub-value at path.
func getPath(v Value, path []int) Value {
	for _, i := range path {
		s, ok := v.(Struct)
		if !ok {
			panic(abortSignal{fmt.Sprintf("field path into non-struct %T", v)})
		}
		v = s.F[i]
	}
	return v
}

func setPath(v Value, path []int, nv Value) Value {
	if len(path) == 0 {
		return nv
	}
	s, ok := v.(Struct)
	if !ok {
		panic(abortSignal{fmt.Sprintf("field path into non-struct %T", v)})
	}
	nf := append([]Value(nil), s.F...)
	nf[path[0]] = setPath(s.F[path[0]], path[1:], nv)
	return Struct{nf}
}

// load reads through a pointer.
func (st *State) load(p Ptr) Value {
	if p.Obj == 0 {
		panic(goPanic{"nil-deref", "nil pointer dereference"})
	}
	o := st.obj(p.Obj)
	if p.Cell == -1 && len(p.Path) == 0 && p.Idx == nil {
		// whole array
		return st.deepCopy(ArrayV{p.Obj})
	}
	if o.Kind == OBytes {
		return BV{Select(o.Arr, p.Idx)}
	}
	if o.Kind != OCells {
		panic(abortSignal{"load from map object"})
	}
	if p.Cell < 0 || p.Cell >= len(o.Cells) {
		panic(abortSignal{fmt.Sprintf("load cell %d of %d", p.Cell, len(o.Cells))})
	}
	v := getPath(o.Cells[p.Cell], p.Path)
	if containsArray(v) {
		return st.deepCopy(v)
	}
	return v
}

func (st *State) store(p Ptr, v Value) {
	if p.Obj == 0 {
		panic(goPanic{"nil-deref", "nil pointer dereference (store)"})
	}
	o := st.obj(p.Obj)
	if o.ReadOnly {
		panic(abortSignal{"store to read-only object"})
	}
	if p.Cell == -1 && len(p.Path) == 0 && p.Idx == nil {
		av, ok := v.(ArrayV)
		if !ok {
			panic(abortSignal{fmt.Sprintf("store of %T to array pointer", v)})
		}
		st.storeInto(ArrayV{p.Obj}, av)
		return
	}
	w := st.wobj(p.Obj)
	if w.Kind == OBytes {
		b, ok := v.(BV)
		if !ok || b.T.S.W != 8 {
			panic(abortSignal{fmt.Sprintf("store of %s to byte cell", fmtVal(v))})
		}
		w.Arr = Store(w.Arr, p.Idx, b.T)
		return
	}
	if p.Cell < 0 || p.Cell >= len(w.Cells) {
		panic(abortSignal{fmt.Sprintf("store cell %d of %d", p.Cell, len(w.Cells))})
	}
	old := getPath(w.Cells[p.Cell], p.Path)
	w.Cells[p.Cell] = setPath(w.Cells[p.Cell], p.Path, st.storeInto(old, v))
}

// storeInto assigns nv over old keeping the identity of array objects owned by old.
func (st *State) storeInto(old, nv Value) Value {
	switch o := old.(type) {
	case ArrayV:
		n, ok := nv.(ArrayV)
		if !ok || o.Obj == 0 {
			return st.deepCopy(nv)
		}
		if n.Obj == o.Obj {
			return old
		}
		src := st.obj(n.Obj)
		w := st.wobj(o.Obj)
		if src.Kind == OBytes {
			w.Arr = src.Arr
		} else {
			cells := make([]Value, len(src.Cells))
			for i, c := range src.Cells {
				if i < len(w.Cells) {
					cells[i] = st.storeInto(w.Cells[i], c)
				} else {
					cells[i] = st.deepCopy(c)
				}
			}
			w.Cells = cells
		}
		return old
	case Struct:
		n, ok := nv.(Struct)
		if !ok || len(n.F) != len(o.F) {
			return st.deepCopy(nv)
		}
		if !containsArray(old) && !containsArray(nv) {
			return nv
		}
		nf := make([]Value, len(o.F))
		for i := range o.F {
			nf[i] = st.storeInto(o.F[i], n.F[i])
		}
		return Struct{nf}
	}
	if containsArray(nv) {
		return st.deepCopy(nv)
	}
	return nv
}

// hop: if the value at the pointer is an array, return a pointer to that array object.
func (st *State) hop(p Ptr, t types.Type) Ptr {
	if _, ok := t.Underlying().(*types.Array); ok {
		o := st.obj(p.Obj)
		v := getPath(o.Cells[p.Cell], p.Path)
		av, ok := v.(ArrayV)
		if !ok {
			panic(abortSignal{fmt.Sprintf("expected array value, got %T", v)})
		}
		return Ptr{Obj: av.Obj, Cell: -1}
	}
	return p
}

// ---------- decisions

func (st *State) decide(c *Term) bool {
	if c.IsConst() {
		return c.C == 1
	}
	if c.Op == "not" {
		return !st.decide(c.Args[0])
	}
	if v, ok := st.decided[c.ID]; ok {
		return v
	}
	if v, ok := quickDecide(c); ok {
		return v
	}
	panic(forkSignal{c})
}

func (st *State) assume(c *Term) {
	if c.IsTrue() {
		return
	}
	if c.Op == "and" {
		for _, a := range c.Args {
			st.assume(a)
		}
		return
	}
	st.pc = append(st.pc, c)
	if c.Op == "not" {
		st.decided[c.Args[0].ID] = false
	} else {
		st.decided[c.ID] = true
	}
	st.noteEq(c)
}

// noteEq records x == const facts for constant propagation in operand evaluation.
func (st *State) noteEq(c *Term) {
	if c.Op == "=" && c.Args[0].S.K == KBV {
		a, b := c.Args[0], c.Args[1]
		if a.IsConst() {
			a, b = b, a
		}
		if b.IsConst() && !a.IsConst() {
			if st.eqc == nil {
				st.eqc = map[int]*Term{}
			}
			st.eqc[a.ID] = b
			// also through zero extension
			if a.Op == "zext" && b.Big == nil {
				st.eqc[a.Args[0].ID] = BVC(a.Args[0].S.W, b.C)
			}
		}
	}
}

// fresh returns a symbol whose name is a function of the position on the path, so that
// re-executing an instruction after a fork yields the same symbol.
func (st *State) fresh(tag string, s Sort) *Term {
	st.sub++
	sn := "b"
	switch s.K {
	case KBV:
		sn = fmt.Sprintf("v%d", s.W)
	case KArr:
		sn = "a"
	case KInt:
		sn = "i"
	case KU:
		sn = s.Name
	}
	return Var(fmt.Sprintf("%s@%d.%d%s", tag, st.seq, st.sub, sn), s)
}

// addPC adds a side constraint (definition of a fresh symbol) to the path condition.
func (st *State) addPC(c *Term) {
	if c.IsTrue() {
		return
	}
	if _, ok := st.decided[c.ID]; ok {
		return
	}
	st.pc = append(st.pc, c)
	st.decided[c.ID] = true
}

func (st *State) top() *Frame { return st.frames[len(st.frames)-1] }

// quickDecide settles comparisons whose outcome follows from syntactic value ranges.
func quickDecide(c *Term) (bool, bool) {
	if c.Op == "bvult" {
		a, b := c.Args[0], c.Args[1]
		if b.IsConst() && b.Big == nil {
			if ub, ok := uboundSound(a); ok && ub < b.C {
				return true, true
			}
		}
		if a.IsConst() && a.Big == nil {
			if ub, ok := uboundSound(b); ok && ub <= a.C {
				return false, true
			}
		}
	}
	return false, false
}

func (st *State) isShared(obj int) bool {
	if obj <= st.sharedMax {
		return true
	}
	for _, r := range st.lateGlobals {
		if obj >= r[0] && obj <= r[1] {
			return true
		}
	}
	return false
}
