package main

// SMT term layer: hash-consed terms with constant folding, printing as SMT-LIB2.

import (
	"fmt"
	"math/big"
	"math/bits"
	"sort"
	"strings"
)

type Kind int

const (
	KBool Kind = iota
	KBV
	KArr // (Array (_ BitVec 64) (_ BitVec 8))
	KInt
	KU // uninterpreted sort, Name
)

type Sort struct {
	K    Kind
	W    int
	Name string
}

var (
	SBool = Sort{K: KBool}
	SArr  = Sort{K: KArr}
	SInt  = Sort{K: KInt}
)

func SBV(w int) Sort    { return Sort{K: KBV, W: w} }
func SU(n string) Sort  { return Sort{K: KU, Name: n} }
func (s Sort) String() string {
	switch s.K {
	case KBool:
		return "Bool"
	case KBV:
		return fmt.Sprintf("(_ BitVec %d)", s.W)
	case KArr:
		return "(Array (_ BitVec 64) (_ BitVec 8))"
	case KInt:
		return "Int"
	}
	return s.Name
}

type Term struct {
	ID       int
	Op       string
	Args     []*Term
	S        Sort
	C        uint64   // BV const (w<=64)
	Big      *big.Int // Int const, or BV const wider than 64
	Name     string   // var / uf name
	P1, P2   int
	hasBound bool
	size     int
	Bound    []*Term // for lambda/forall: bound vars
	Pat      []*Term // patterns for forall
}

type TermStore struct {
	tab     map[string]*Term
	next    int
	decls   []string          // declarations in order (declare-fun/sort lines)
	declSet map[string]bool
	fresh   int
	ufs     map[string]*UFDecl
	axioms  []*Term // global axioms (asserted at base level)
}

type UFDecl struct {
	Name string
	Args []Sort
	Ret  Sort
}

var TS = &TermStore{tab: map[string]*Term{}, declSet: map[string]bool{}, ufs: map[string]*UFDecl{}}

func (ts *TermStore) mk(t *Term) *Term {
	var sb strings.Builder
	sb.WriteString(t.Op)
	sb.WriteByte('|')
	sb.WriteString(t.S.String())
	sb.WriteByte('|')
	switch t.Op {
	case "const":
		if t.Big != nil {
			sb.WriteString(t.Big.String())
		} else {
			fmt.Fprintf(&sb, "%d", t.C)
		}
	case "var", "bvar":
		sb.WriteString(t.Name)
	case "uf":
		sb.WriteString(t.Name)
	}
	fmt.Fprintf(&sb, "|%d,%d", t.P1, t.P2)
	for _, a := range t.Args {
		fmt.Fprintf(&sb, ",%d", a.ID)
	}
	for _, a := range t.Bound {
		fmt.Fprintf(&sb, ";%d", a.ID)
	}
	for _, a := range t.Pat {
		fmt.Fprintf(&sb, "!%d", a.ID)
	}
	k := sb.String()
	if old, ok := ts.tab[k]; ok {
		return old
	}
	ts.next++
	t.ID = ts.next
	t.size = 1
	for _, a := range t.Args {
		if a.hasBound {
			t.hasBound = true
		}
		t.size += a.size
		if t.size > 1<<30 {
			t.size = 1 << 30
		}
	}
	if t.Op == "bvar" {
		t.hasBound = true
	}
	if len(t.Bound) > 0 {
		// closed if all bound occurrences are bound here (approximation: recompute)
		t.hasBound = hasFreeBound(t)
	}
	ts.tab[k] = t
	return t
}

func hasFreeBound(t *Term) bool {
	bound := map[int]bool{}
	var rec func(t *Term, bound map[int]bool) bool
	memo := map[int]bool{}
	rec = func(t *Term, bound map[int]bool) bool {
		if !t.hasBound && t.Op != "lambda" && t.Op != "forall" && t.Op != "exists" {
			return false
		}
		if t.Op == "bvar" {
			return !bound[t.ID]
		}
		if len(t.Bound) > 0 {
			nb := map[int]bool{}
			for k := range bound {
				nb[k] = true
			}
			for _, b := range t.Bound {
				nb[b.ID] = true
			}
			for _, a := range t.Args {
				if rec(a, nb) {
					return true
				}
			}
			return false
		}
		if len(bound) == 0 {
			if v, ok := memo[t.ID]; ok {
				return v
			}
		}
		r := false
		for _, a := range t.Args {
			if rec(a, bound) {
				r = true
				break
			}
		}
		if len(bound) == 0 {
			memo[t.ID] = r
		}
		return r
	}
	return rec(t, bound)
}

func mask(w int) uint64 {
	if w >= 64 {
		return ^uint64(0)
	}
	return (uint64(1) << uint(w)) - 1
}

func (t *Term) IsConst() bool { return t.Op == "const" }
func (t *Term) IsTrue() bool  { return t.Op == "const" && t.S.K == KBool && t.C == 1 }
func (t *Term) IsFalse() bool { return t.Op == "const" && t.S.K == KBool && t.C == 0 }

// signed value of a BV const
func (t *Term) SVal() int64 {
	w := t.S.W
	v := t.C
	if w < 64 && v&(1<<uint(w-1)) != 0 {
		v |= ^mask(w)
	}
	return int64(v)
}

var (
	tTrue  *Term
	tFalse *Term
)

func init() {
	tTrue = TS.mk(&Term{Op: "const", S: SBool, C: 1})
	tFalse = TS.mk(&Term{Op: "const", S: SBool, C: 0})
}

func BoolC(b bool) *Term {
	if b {
		return tTrue
	}
	return tFalse
}

func BVC(w int, v uint64) *Term {
	if w > 64 {
		return BVBig(w, new(big.Int).SetUint64(v))
	}
	return TS.mk(&Term{Op: "const", S: SBV(w), C: v & mask(w)})
}

func BVBig(w int, v *big.Int) *Term {
	m := new(big.Int).Lsh(big.NewInt(1), uint(w))
	v = new(big.Int).Mod(v, m)
	if w <= 64 {
		return BVC(w, v.Uint64())
	}
	return TS.mk(&Term{Op: "const", S: SBV(w), Big: v})
}

func IntC(v *big.Int) *Term {
	return TS.mk(&Term{Op: "const", S: SInt, Big: new(big.Int).Set(v)})
}
func IntC64(v int64) *Term { return IntC(big.NewInt(v)) }

func Var(name string, s Sort) *Term {
	t := TS.mk(&Term{Op: "var", S: s, Name: name})
	if !TS.declSet[name] {
		TS.declSet[name] = true
		TS.decls = append(TS.decls, fmt.Sprintf("(declare-fun %s () %s)", smtName(name), s))
	}
	return t
}

func Fresh(prefix string, s Sort) *Term {
	TS.fresh++
	return Var(fmt.Sprintf("%s!%d", prefix, TS.fresh), s)
}

func BoundVar(name string, s Sort) *Term {
	TS.fresh++
	return TS.mk(&Term{Op: "bvar", S: s, Name: fmt.Sprintf("%s_b%d", name, TS.fresh)})
}

func DeclSort(name string) Sort {
	k := "sort:" + name
	if !TS.declSet[k] {
		TS.declSet[k] = true
		TS.decls = append(TS.decls, fmt.Sprintf("(declare-sort %s 0)", name))
	}
	return SU(name)
}

func UF(name string, ret Sort, args ...*Term) *Term {
	d, ok := TS.ufs[name]
	if !ok {
		d = &UFDecl{Name: name, Ret: ret}
		for _, a := range args {
			d.Args = append(d.Args, a.S)
		}
		TS.ufs[name] = d
		var sb strings.Builder
		fmt.Fprintf(&sb, "(declare-fun %s (", smtName(name))
		for i, a := range d.Args {
			if i > 0 {
				sb.WriteByte(' ')
			}
			sb.WriteString(a.String())
		}
		fmt.Fprintf(&sb, ") %s)", ret)
		TS.decls = append(TS.decls, sb.String())
	} else {
		if len(d.Args) != len(args) {
			panic(fmt.Sprintf("UF %s arity mismatch", name))
		}
		for i := range args {
			if d.Args[i] != args[i].S {
				panic(fmt.Sprintf("UF %s arg %d sort mismatch: %v vs %v", name, i, d.Args[i], args[i].S))
			}
		}
	}
	if len(args) == 0 {
		return TS.mk(&Term{Op: "uf", S: ret, Name: name})
	}
	return TS.mk(&Term{Op: "uf", S: ret, Name: name, Args: args})
}

func smtName(n string) string {
	ok := true
	for _, c := range n {
		if !(c >= 'a' && c <= 'z' || c >= 'A' && c <= 'Z' || c >= '0' && c <= '9' || c == '_' || c == '!' || c == '.' || c == '$') {
			ok = false
		}
	}
	if ok && len(n) > 0 && !(n[0] >= '0' && n[0] <= '9') {
		return n
	}
	return "|" + strings.ReplaceAll(n, "|", "_") + "|"
}

// ---------- boolean ops

func Not(a *Term) *Term {
	if a.IsConst() {
		return BoolC(a.C == 0)
	}
	if a.Op == "not" {
		return a.Args[0]
	}
	return TS.mk(&Term{Op: "not", S: SBool, Args: []*Term{a}})
}

func And(as ...*Term) *Term {
	var out []*Term
	seen := map[int]bool{}
	for _, a := range as {
		if a.IsFalse() {
			return tFalse
		}
		if a.IsTrue() || seen[a.ID] {
			continue
		}
		if a.Op == "and" {
			for _, x := range a.Args {
				if !seen[x.ID] {
					seen[x.ID] = true
					out = append(out, x)
				}
			}
			continue
		}
		seen[a.ID] = true
		out = append(out, a)
	}
	for _, a := range out {
		if a.Op == "not" && seen[a.Args[0].ID] {
			return tFalse
		}
	}
	if len(out) == 0 {
		return tTrue
	}
	if len(out) == 1 {
		return out[0]
	}
	return TS.mk(&Term{Op: "and", S: SBool, Args: out})
}

func Or(as ...*Term) *Term {
	var out []*Term
	seen := map[int]bool{}
	for _, a := range as {
		if a.IsTrue() {
			return tTrue
		}
		if a.IsFalse() || seen[a.ID] {
			continue
		}
		if a.Op == "or" {
			for _, x := range a.Args {
				if !seen[x.ID] {
					seen[x.ID] = true
					out = append(out, x)
				}
			}
			continue
		}
		seen[a.ID] = true
		out = append(out, a)
	}
	for _, a := range out {
		if a.Op == "not" && seen[a.Args[0].ID] {
			return tTrue
		}
	}
	if len(out) == 0 {
		return tFalse
	}
	if len(out) == 1 {
		return out[0]
	}
	return TS.mk(&Term{Op: "or", S: SBool, Args: out})
}

func Implies(a, b *Term) *Term { return Or(Not(a), b) }

func Ite(c, a, b *Term) *Term {
	if c.IsTrue() {
		return a
	}
	if c.IsFalse() {
		return b
	}
	if a == b {
		return a
	}
	if a.S != b.S {
		panic(fmt.Sprintf("ite sort mismatch %v %v", a.S, b.S))
	}
	if a.S.K == KBool {
		if a.IsTrue() && b.IsFalse() {
			return c
		}
		if a.IsFalse() && b.IsTrue() {
			return Not(c)
		}
		if a.IsTrue() {
			return Or(c, b)
		}
		if a.IsFalse() {
			return And(Not(c), b)
		}
		if b.IsTrue() {
			return Or(Not(c), a)
		}
		if b.IsFalse() {
			return And(c, a)
		}
	}
	if c.Op == "not" {
		return Ite(c.Args[0], b, a)
	}
	return TS.mk(&Term{Op: "ite", S: a.S, Args: []*Term{c, a, b}})
}

func Eq(a, b *Term) *Term {
	if a == b {
		return tTrue
	}
	if a.S != b.S {
		panic(fmt.Sprintf("eq sort mismatch %v %v (%s, %s)", a.S, b.S, a.Op, b.Op))
	}
	if a.IsConst() && b.IsConst() {
		if a.Big != nil || b.Big != nil {
			return BoolC(bigOf(a).Cmp(bigOf(b)) == 0)
		}
		return BoolC(a.C == b.C)
	}
	if a.S.K == KBool {
		if a.IsConst() {
			a, b = b, a
		}
		if b.IsTrue() {
			return a
		}
		if b.IsFalse() {
			return Not(a)
		}
	}
	// ite(c, k1, k2) == k  with constants
	if b.IsConst() && a.Op == "ite" && a.Args[1].IsConst() && a.Args[2].IsConst() {
		return Ite(a.Args[0], Eq(a.Args[1], b), Eq(a.Args[2], b))
	}
	if a.IsConst() && b.Op == "ite" && b.Args[1].IsConst() && b.Args[2].IsConst() {
		return Ite(b.Args[0], Eq(b.Args[1], a), Eq(b.Args[2], a))
	}
	// zext(x) == const
	if b.IsConst() && a.Op == "zext" && b.Big == nil {
		x := a.Args[0]
		if b.C > mask(x.S.W) {
			return tFalse
		}
		return Eq(x, BVC(x.S.W, b.C))
	}
	// injective uninterpreted functions: f(x1..xn) = f(y1..yn) <=> xi = yi; different symbols of
	// the same width have disjoint ranges (both are axiomatised per application as well)
	if a.Op == "uf" && b.Op == "uf" && a.Name == b.Name && injectiveUF[a.Name] {
		cs := make([]*Term, len(a.Args))
		for i := range a.Args {
			cs[i] = Eq(a.Args[i], b.Args[i])
		}
		return And(cs...)
	}
	if a.Op == "uf" && b.Op == "uf" && a.Name != b.Name && taggedUF[a.Name] && taggedUF[b.Name] {
		return tFalse
	}
	// wide concatenations are compared piecewise
	if a.S.K == KBV && a.S.W > 64 && (a.Op == "concat" || b.Op == "concat") {
		pa, pb := flattenConcat(a), flattenConcat(b)
		if len(pa) > 1 || len(pb) > 1 {
			var cs []*Term
			i, j := 0, 0
			var ra, rb *Term // remaining low parts of the current pieces
			for i < len(pa) || ra != nil {
				if ra == nil {
					ra = pa[i]
					i++
				}
				if rb == nil {
					if j >= len(pb) {
						break
					}
					rb = pb[j]
					j++
				}
				wa, wb := ra.S.W, rb.S.W
				switch {
				case wa == wb:
					cs = append(cs, Eq(ra, rb))
					ra, rb = nil, nil
				case wa > wb:
					cs = append(cs, Eq(Extract(ra, wa-1, wa-wb), rb))
					ra, rb = Extract(ra, wa-wb-1, 0), nil
				default:
					cs = append(cs, Eq(ra, Extract(rb, wb-1, wb-wa)))
					ra, rb = nil, Extract(rb, wb-wa-1, 0)
				}
			}
			return And(cs...)
		}
	}
	if a.ID > b.ID {
		a, b = b, a
	}
	return TS.mk(&Term{Op: "=", S: SBool, Args: []*Term{a, b}})
}

var injectiveUF = map[string]bool{}
var taggedUF = map[string]bool{}

// flattenConcat lists the pieces of a (nested) concatenation from the most significant end.
func flattenConcat(t *Term) []*Term {
	var out []*Term
	var stack []*Term
	stack = append(stack, t)
	for len(stack) > 0 {
		x := stack[len(stack)-1]
		stack = stack[:len(stack)-1]
		if x.Op == "concat" {
			stack = append(stack, x.Args[1], x.Args[0])
			continue
		}
		out = append(out, x)
	}
	return out
}

func bigOf(t *Term) *big.Int {
	if t.Big != nil {
		return t.Big
	}
	return new(big.Int).SetUint64(t.C)
}

// ---------- bit-vector ops

func bv2(op string, a, b *Term) *Term {
	if a.S != b.S {
		panic(fmt.Sprintf("%s sort mismatch %v %v", op, a.S, b.S))
	}
	return TS.mk(&Term{Op: op, S: a.S, Args: []*Term{a, b}})
}

func wideFold(op string, a, b *Term) *Term {
	w := a.S.W
	x, y := bigOf(a), bigOf(b)
	r := new(big.Int)
	switch op {
	case "bvadd":
		r.Add(x, y)
	case "bvsub":
		r.Sub(x, y)
	case "bvmul":
		r.Mul(x, y)
	case "bvand":
		r.And(x, y)
	case "bvor":
		r.Or(x, y)
	case "bvxor":
		r.Xor(x, y)
	case "bvshl":
		if y.BitLen() > 32 {
			return BVBig(w, big.NewInt(0))
		}
		r.Lsh(x, uint(y.Uint64()))
	case "bvlshr":
		if y.BitLen() > 32 {
			return BVBig(w, big.NewInt(0))
		}
		r.Rsh(x, uint(y.Uint64()))
	default:
		return nil
	}
	return BVBig(w, r)
}

func BVAdd(a, b *Term) *Term {
	w := a.S.W
	if a.IsConst() && b.IsConst() {
		if w > 64 {
			return wideFold("bvadd", a, b)
		}
		return BVC(w, a.C+b.C)
	}
	if a.IsConst() {
		a, b = b, a
	}
	if b.IsConst() && b.Big == nil && b.C == 0 {
		return a
	}
	// (x + c1) + c2
	if b.IsConst() && w <= 64 && a.Op == "bvadd" && a.Args[1].IsConst() {
		return BVAdd(a.Args[0], BVC(w, a.Args[1].C+b.C))
	}
	// (x - c1) + c2 where sub stored as bvsub x c1
	if b.IsConst() && w <= 64 && a.Op == "bvsub" && a.Args[1].IsConst() {
		return BVAdd(a.Args[0], BVC(w, b.C-a.Args[1].C))
	}
	return bv2("bvadd", a, b)
}

func BVSub(a, b *Term) *Term {
	w := a.S.W
	if a.IsConst() && b.IsConst() {
		if w > 64 {
			return wideFold("bvsub", a, b)
		}
		return BVC(w, a.C-b.C)
	}
	if a == b {
		return BVC(w, 0)
	}
	if b.IsConst() && w <= 64 {
		return BVAdd(a, BVC(w, -b.C))
	}
	// (x + y) - x  => y ; (x+y) - y => x
	if a.Op == "bvadd" {
		if a.Args[0] == b {
			return a.Args[1]
		}
		if a.Args[1] == b {
			return a.Args[0]
		}
		// (x + c) - (y + c2)?? skip
	}
	// (x + c1) - (x + c2)
	if w <= 64 && a.Op == "bvadd" && b.Op == "bvadd" && a.Args[0] == b.Args[0] && a.Args[1].IsConst() && b.Args[1].IsConst() {
		return BVC(w, a.Args[1].C-b.Args[1].C)
	}
	if w <= 64 && b.Op == "bvadd" && b.Args[0] == a && b.Args[1].IsConst() {
		return BVC(w, -b.Args[1].C)
	}
	return bv2("bvsub", a, b)
}

func BVNeg(a *Term) *Term { return BVSub(BVC(a.S.W, 0), a) }

func BVMul(a, b *Term) *Term {
	w := a.S.W
	if a.IsConst() && b.IsConst() {
		if w > 64 {
			return wideFold("bvmul", a, b)
		}
		return BVC(w, a.C*b.C)
	}
	if a.IsConst() {
		a, b = b, a
	}
	if b.IsConst() && b.Big == nil {
		if b.C == 0 {
			return b
		}
		if b.C == 1 {
			return a
		}
	}
	return bv2("bvmul", a, b)
}

func BVAnd(a, b *Term) *Term {
	w := a.S.W
	if a.IsConst() && b.IsConst() {
		if w > 64 {
			return wideFold("bvand", a, b)
		}
		return BVC(w, a.C&b.C)
	}
	if a.IsConst() {
		a, b = b, a
	}
	if a == b {
		return a
	}
	if b.IsConst() && b.Big == nil && w <= 64 {
		if b.C == 0 {
			return b
		}
		if b.C == mask(w) {
			return a
		}
		// zext(x) & m where m covers x
		if a.Op == "zext" && b.C&mask(a.Args[0].S.W) == mask(a.Args[0].S.W) {
			return a
		}
		if a.Op == "zext" {
			x := a.Args[0]
			return ZExt(BVAnd(x, BVC(x.S.W, b.C)), w)
		}
	}
	return bv2("bvand", a, b)
}

func BVOr(a, b *Term) *Term {
	w := a.S.W
	if a.IsConst() && b.IsConst() {
		if w > 64 {
			return wideFold("bvor", a, b)
		}
		return BVC(w, a.C|b.C)
	}
	if a.IsConst() {
		a, b = b, a
	}
	if a == b {
		return a
	}
	if b.IsConst() && b.Big == nil && w <= 64 {
		if b.C == 0 {
			return a
		}
		if b.C == mask(w) {
			return b
		}
	}
	return bv2("bvor", a, b)
}

func BVXor(a, b *Term) *Term {
	w := a.S.W
	if a.IsConst() && b.IsConst() {
		if w > 64 {
			return wideFold("bvxor", a, b)
		}
		return BVC(w, a.C^b.C)
	}
	if a == b {
		return BVC(w, 0)
	}
	if a.IsConst() {
		a, b = b, a
	}
	if b.IsConst() && b.Big == nil && b.C == 0 {
		return a
	}
	return bv2("bvxor", a, b)
}

func BVNot(a *Term) *Term {
	if a.IsConst() && a.S.W <= 64 {
		return BVC(a.S.W, ^a.C)
	}
	return TS.mk(&Term{Op: "bvnot", S: a.S, Args: []*Term{a}})
}

// shifts: b has the same width as a (caller normalises); SMT semantics (shift >= w gives 0 / sign)
func BVShl(a, b *Term) *Term {
	w := a.S.W
	if b.IsConst() && b.Big == nil {
		if b.C == 0 {
			return a
		}
		if b.C >= uint64(w) {
			return BVC(w, 0)
		}
		if a.IsConst() {
			if w > 64 {
				return wideFold("bvshl", a, b)
			}
			return BVC(w, a.C<<b.C)
		}
	}
	return bv2("bvshl", a, b)
}

func BVLshr(a, b *Term) *Term {
	w := a.S.W
	if b.IsConst() && b.Big == nil {
		if b.C == 0 {
			return a
		}
		if b.C >= uint64(w) {
			return BVC(w, 0)
		}
		if a.IsConst() {
			if w > 64 {
				return wideFold("bvlshr", a, b)
			}
			return BVC(w, a.C>>b.C)
		}
		// zext(x) >> k where k >= width(x) => 0
		if a.Op == "zext" && b.C >= uint64(a.Args[0].S.W) {
			return BVC(w, 0)
		}
	}
	return bv2("bvlshr", a, b)
}

func BVAshr(a, b *Term) *Term {
	w := a.S.W
	if b.IsConst() && b.Big == nil && w <= 64 {
		if b.C == 0 {
			return a
		}
		if a.IsConst() {
			sh := b.C
			if sh >= uint64(w) {
				sh = uint64(w - 1)
			}
			return BVC(w, uint64(a.SVal()>>sh))
		}
	}
	return bv2("bvashr", a, b)
}

func BVUdiv(a, b *Term) *Term {
	w := a.S.W
	if a.IsConst() && b.IsConst() && w <= 64 && b.C != 0 {
		return BVC(w, a.C/b.C)
	}
	if b.IsConst() && b.Big == nil && b.C == 1 {
		return a
	}
	return bv2("bvudiv", a, b)
}
func BVUrem(a, b *Term) *Term {
	w := a.S.W
	if a.IsConst() && b.IsConst() && w <= 64 && b.C != 0 {
		return BVC(w, a.C%b.C)
	}
	return bv2("bvurem", a, b)
}
func BVSdiv(a, b *Term) *Term {
	w := a.S.W
	if a.IsConst() && b.IsConst() && w <= 64 && b.C != 0 {
		x, y := a.SVal(), b.SVal()
		if y == -1 {
			return BVC(w, uint64(-x))
		}
		return BVC(w, uint64(x/y))
	}
	return bv2("bvsdiv", a, b)
}
func BVSrem(a, b *Term) *Term {
	w := a.S.W
	if a.IsConst() && b.IsConst() && w <= 64 && b.C != 0 {
		x, y := a.SVal(), b.SVal()
		if y == -1 {
			return BVC(w, 0)
		}
		return BVC(w, uint64(x%y))
	}
	return bv2("bvsrem", a, b)
}

func cmp2(op string, a, b *Term) *Term {
	if a.S != b.S {
		panic(fmt.Sprintf("%s sort mismatch %v %v", op, a.S, b.S))
	}
	return TS.mk(&Term{Op: op, S: SBool, Args: []*Term{a, b}})
}

func BVUlt(a, b *Term) *Term {
	if a.IsConst() && b.IsConst() {
		if a.Big != nil || b.Big != nil {
			return BoolC(bigOf(a).Cmp(bigOf(b)) < 0)
		}
		return BoolC(a.C < b.C)
	}
	if a == b {
		return tFalse
	}
	if b.IsConst() && b.Big == nil && b.C == 0 {
		return tFalse
	}
	// zext(x) < c with c > max(x)
	if b.IsConst() && b.Big == nil && a.Op == "zext" && b.C > mask(a.Args[0].S.W) {
		return tTrue
	}
	if a.IsConst() && a.Big == nil && b.Op == "zext" && a.C >= mask(b.Args[0].S.W) {
		return tFalse
	}
	return cmp2("bvult", a, b)
}
func BVUle(a, b *Term) *Term { return Not(BVUlt(b, a)) }
func BVSlt(a, b *Term) *Term {
	if a.IsConst() && b.IsConst() && a.S.W <= 64 {
		return BoolC(a.SVal() < b.SVal())
	}
	if a == b {
		return tFalse
	}
	// zext(x) <s c, zext makes the value non-negative when strictly wider
	if a.Op == "zext" && a.P1 > 0 && b.IsConst() && b.S.W <= 64 {
		if b.SVal() <= 0 {
			return tFalse
		}
		if uint64(b.SVal()) > mask(a.Args[0].S.W) {
			return tTrue
		}
	}
	if b.Op == "zext" && b.P1 > 0 && a.IsConst() && a.S.W <= 64 {
		if a.SVal() < 0 {
			return tTrue
		}
		if uint64(a.SVal()) >= mask(b.Args[0].S.W) {
			return tFalse
		}
	}
	return cmp2("bvslt", a, b)
}
func BVSle(a, b *Term) *Term { return Not(BVSlt(b, a)) }

func ZExt(a *Term, w int) *Term {
	if a.S.W == w {
		return a
	}
	if a.S.W > w {
		return Extract(a, w-1, 0)
	}
	if a.IsConst() {
		if w > 64 {
			return BVBig(w, bigOf(a))
		}
		return BVC(w, a.C)
	}
	if a.Op == "zext" {
		return ZExt(a.Args[0], w)
	}
	return TS.mk(&Term{Op: "zext", S: SBV(w), Args: []*Term{a}, P1: w - a.S.W})
}

func SExt(a *Term, w int) *Term {
	if a.S.W == w {
		return a
	}
	if a.S.W > w {
		return Extract(a, w-1, 0)
	}
	if a.IsConst() && w <= 64 {
		return BVC(w, uint64(a.SVal()))
	}
	if a.Op == "zext" && a.P1 > 0 {
		return ZExt(a.Args[0], w)
	}
	return TS.mk(&Term{Op: "sext", S: SBV(w), Args: []*Term{a}, P1: w - a.S.W})
}

func Extract(a *Term, hi, lo int) *Term {
	w := hi - lo + 1
	if lo == 0 && w == a.S.W {
		return a
	}
	if a.IsConst() {
		if a.Big != nil {
			r := new(big.Int).Rsh(a.Big, uint(lo))
			return BVBig(w, r)
		}
		return BVC(w, a.C>>uint(lo))
	}
	if a.Op == "zext" || a.Op == "sext" {
		x := a.Args[0]
		if hi < x.S.W {
			return Extract(x, hi, lo)
		}
		if a.Op == "zext" && lo >= x.S.W {
			return BVC(w, 0)
		}
		if lo == 0 {
			if a.Op == "zext" {
				return ZExt(x, w)
			}
			return SExt(x, w)
		}
	}
	if a.Op == "extract" {
		return Extract(a.Args[0], hi+a.P2, lo+a.P2)
	}
	if a.Op == "concat" {
		lw := a.Args[1].S.W
		if hi < lw {
			return Extract(a.Args[1], hi, lo)
		}
		if lo >= lw {
			return Extract(a.Args[0], hi-lw, lo-lw)
		}
	}
	// extract low bits of bitwise/arith ops: push inside for and/or/xor/add/sub/mul (lo==0)
	if lo == 0 && (a.Op == "bvand" || a.Op == "bvor" || a.Op == "bvxor" || a.Op == "bvadd" || a.Op == "bvsub" || a.Op == "bvmul") {
		x := Extract(a.Args[0], hi, 0)
		y := Extract(a.Args[1], hi, 0)
		switch a.Op {
		case "bvand":
			return BVAnd(x, y)
		case "bvor":
			return BVOr(x, y)
		case "bvxor":
			return BVXor(x, y)
		case "bvadd":
			return BVAdd(x, y)
		case "bvsub":
			return BVSub(x, y)
		case "bvmul":
			return BVMul(x, y)
		}
	}
	if lo == 0 && a.Op == "bvshl" && a.Args[1].IsConst() {
		return BVShl(Extract(a.Args[0], hi, 0), BVC(w, a.Args[1].C))
	}
	// extract of lshr by constant: shift the window
	if a.Op == "bvlshr" && a.Args[1].IsConst() && a.Args[1].Big == nil {
		k := int(a.Args[1].C)
		if hi+k < a.S.W {
			return Extract(a.Args[0], hi+k, lo+k)
		}
	}
	return TS.mk(&Term{Op: "extract", S: SBV(w), Args: []*Term{a}, P1: hi, P2: lo})
}

func Concat(a, b *Term) *Term {
	w := a.S.W + b.S.W
	if a.IsConst() && b.IsConst() && w <= 64 {
		return BVC(w, a.C<<uint(b.S.W)|b.C)
	}
	if a.IsConst() && a.Big == nil && a.C == 0 {
		return ZExt(b, w)
	}
	// adjacent extracts of the same term merge: x[h:m+1] ++ x[m:l] = x[h:l]
	if a.Op == "extract" && b.Op == "extract" && a.Args[0] == b.Args[0] && a.P2 == b.P1+1 {
		return Extract(a.Args[0], a.P1, b.P2)
	}
	// (p ++ x[h:m+1]) ++ x[m:l]
	if a.Op == "concat" && b.Op == "extract" && a.Args[1].Op == "extract" && a.Args[1].Args[0] == b.Args[0] && a.Args[1].P2 == b.P1+1 {
		return Concat(a.Args[0], Extract(b.Args[0], a.Args[1].P1, b.P2))
	}
	return TS.mk(&Term{Op: "concat", S: SBV(w), Args: []*Term{a, b}})
}

// ---------- arrays

var zeroArr *Term

func ZeroArr() *Term {
	if zeroArr == nil {
		zeroArr = TS.mk(&Term{Op: "constarr", S: SArr, Args: []*Term{BVC(8, 0)}})
	}
	return zeroArr
}

func definitelyDistinct(i, j *Term) bool {
	if i.IsConst() && j.IsConst() {
		return i.C != j.C
	}
	// x + c1 vs x + c2
	bi, ci := splitAdd(i)
	bj, cj := splitAdd(j)
	if bi == bj && ci != cj {
		return true
	}
	return false
}

func splitAdd(t *Term) (*Term, uint64) {
	if t.Op == "bvadd" && t.Args[1].IsConst() {
		return t.Args[0], t.Args[1].C
	}
	if t.IsConst() {
		return nil, t.C
	}
	return t, 0
}

func Select(a, i *Term) *Term {
	for depth := 0; ; depth++ {
		switch a.Op {
		case "constarr":
			return a.Args[0]
		case "store":
			if a.Args[1] == i {
				return a.Args[2]
			}
			if definitelyDistinct(a.Args[1], i) {
				a = a.Args[0]
				continue
			}
		case "lambda":
			return Subst(a.Args[0], a.Bound[0], i)
		case "ite":
			// ite over arrays
			if depth < 4 {
				return Ite(a.Args[0], Select(a.Args[1], i), Select(a.Args[2], i))
			}
		}
		break
	}
	return TS.mk(&Term{Op: "select", S: SBV(8), Args: []*Term{a, i}})
}

func Store(a, i, v *Term) *Term {
	if a.Op == "store" && a.Args[1] == i {
		a = a.Args[0]
	}
	return TS.mk(&Term{Op: "store", S: SArr, Args: []*Term{a, i, v}})
}

func Lambda(bv *Term, body *Term) *Term {
	return TS.mk(&Term{Op: "lambda", S: SArr, Args: []*Term{body}, Bound: []*Term{bv}})
}

func Forall(bvs []*Term, body *Term, pats ...*Term) *Term {
	if body.IsTrue() {
		return tTrue
	}
	return TS.mk(&Term{Op: "forall", S: SBool, Args: []*Term{body}, Bound: bvs, Pat: pats})
}

// Subst replaces bound variable v with r in t.
func Subst(t, v, r *Term) *Term {
	memo := map[int]*Term{}
	var rec func(t *Term) *Term
	rec = func(t *Term) *Term {
		if !t.hasBound {
			return t
		}
		if t == v {
			return r
		}
		if x, ok := memo[t.ID]; ok {
			return x
		}
		if len(t.Args) == 0 {
			return t
		}
		na := make([]*Term, len(t.Args))
		ch := false
		for i, a := range t.Args {
			na[i] = rec(a)
			if na[i] != a {
				ch = true
			}
		}
		var out *Term
		if !ch {
			out = t
		} else {
			out = Rebuild(t, na)
		}
		memo[t.ID] = out
		return out
	}
	return rec(t)
}

// Rebuild constructs the same operator with new args (running the simplifier again).
func Rebuild(t *Term, na []*Term) *Term {
	switch t.Op {
	case "not":
		return Not(na[0])
	case "and":
		return And(na...)
	case "or":
		return Or(na...)
	case "ite":
		return Ite(na[0], na[1], na[2])
	case "=":
		return Eq(na[0], na[1])
	case "bvadd":
		return BVAdd(na[0], na[1])
	case "bvsub":
		return BVSub(na[0], na[1])
	case "bvmul":
		return BVMul(na[0], na[1])
	case "bvand":
		return BVAnd(na[0], na[1])
	case "bvor":
		return BVOr(na[0], na[1])
	case "bvxor":
		return BVXor(na[0], na[1])
	case "bvnot":
		return BVNot(na[0])
	case "bvshl":
		return BVShl(na[0], na[1])
	case "bvlshr":
		return BVLshr(na[0], na[1])
	case "bvashr":
		return BVAshr(na[0], na[1])
	case "bvudiv":
		return BVUdiv(na[0], na[1])
	case "bvurem":
		return BVUrem(na[0], na[1])
	case "bvsdiv":
		return BVSdiv(na[0], na[1])
	case "bvsrem":
		return BVSrem(na[0], na[1])
	case "bvult":
		return BVUlt(na[0], na[1])
	case "bvslt":
		return BVSlt(na[0], na[1])
	case "zext":
		return ZExt(na[0], t.S.W)
	case "sext":
		return SExt(na[0], t.S.W)
	case "extract":
		return Extract(na[0], t.P1, t.P2)
	case "concat":
		return Concat(na[0], na[1])
	case "select":
		return Select(na[0], na[1])
	case "store":
		return Store(na[0], na[1], na[2])
	}
	nt := *t
	nt.Args = na
	nt.ID = 0
	return TS.mk(&nt)
}

// ---------- Int ops (Int mode, algebra)

func intFold(op string, as []*Term) *Term {
	for _, a := range as {
		if !a.IsConst() {
			return nil
		}
	}
	r := new(big.Int).Set(as[0].Big)
	for _, a := range as[1:] {
		switch op {
		case "+":
			r.Add(r, a.Big)
		case "-":
			r.Sub(r, a.Big)
		case "*":
			r.Mul(r, a.Big)
		case "div":
			if a.Big.Sign() == 0 {
				return nil
			}
			// SMT-LIB div: floor for positive divisor (euclidean)
			q, m := new(big.Int), new(big.Int)
			q.DivMod(r, a.Big, m)
			r = q
		case "mod":
			if a.Big.Sign() == 0 {
				return nil
			}
			r.Mod(r, a.Big)
		}
	}
	return IntC(r)
}

func IntOp(op string, as ...*Term) *Term {
	if f := intFold(op, as); f != nil {
		return f
	}
	if op == "+" {
		var out []*Term
		acc := big.NewInt(0)
		for _, a := range as {
			if a.IsConst() {
				acc.Add(acc, a.Big)
			} else {
				out = append(out, a)
			}
		}
		if acc.Sign() != 0 {
			out = append(out, IntC(acc))
		}
		if len(out) == 1 {
			return out[0]
		}
		as = out
	}
	if op == "*" && len(as) == 2 {
		if as[0].IsConst() {
			as[0], as[1] = as[1], as[0]
		}
		if as[1].IsConst() {
			if as[1].Big.Sign() == 0 {
				return as[1]
			}
			if as[1].Big.Cmp(big.NewInt(1)) == 0 {
				return as[0]
			}
		}
	}
	if op == "-" && len(as) == 2 && as[1].IsConst() && as[1].Big.Sign() == 0 {
		return as[0]
	}
	return TS.mk(&Term{Op: "i" + op, S: SInt, Args: as})
}

func IntCmp(op string, a, b *Term) *Term {
	if a.IsConst() && b.IsConst() {
		c := a.Big.Cmp(b.Big)
		switch op {
		case "<":
			return BoolC(c < 0)
		case "<=":
			return BoolC(c <= 0)
		case ">":
			return BoolC(c > 0)
		case ">=":
			return BoolC(c >= 0)
		}
	}
	return TS.mk(&Term{Op: "i" + op, S: SBool, Args: []*Term{a, b}})
}

// ---------- printing

type Printer struct {
	defined map[int]bool
	out     *strings.Builder
}

func hexBV(w int, t *Term) string {
	if t.Big != nil {
		if w%4 == 0 {
			s := t.Big.Text(16)
			for len(s) < w/4 {
				s = "0" + s
			}
			return "#x" + s
		}
		s := t.Big.Text(2)
		for len(s) < w {
			s = "0" + s
		}
		return "#b" + s
	}
	if w%4 == 0 {
		return fmt.Sprintf("#x%0*x", w/4, t.C)
	}
	return fmt.Sprintf("#b%0*b", w, t.C)
}

func (p *Printer) ref(t *Term) string {
	switch t.Op {
	case "const":
		switch t.S.K {
		case KBool:
			if t.C == 1 {
				return "true"
			}
			return "false"
		case KBV:
			return hexBV(t.S.W, t)
		case KInt:
			if t.Big.Sign() < 0 {
				return "(- " + new(big.Int).Neg(t.Big).String() + ")"
			}
			return t.Big.String()
		}
	case "var", "bvar":
		return smtName(t.Name)
	case "uf":
		if len(t.Args) == 0 {
			return smtName(t.Name)
		}
	}
	if t.hasBound {
		return p.body(t)
	}
	if !p.defined[t.ID] {
		p.define(t)
	}
	return fmt.Sprintf("t%d", t.ID)
}

func (p *Printer) define(t *Term) {
	// iterative post-order to avoid deep recursion
	type fr struct {
		t *Term
		i int
	}
	stack := []fr{{t, 0}}
	for len(stack) > 0 {
		f := &stack[len(stack)-1]
		if p.defined[f.t.ID] {
			stack = stack[:len(stack)-1]
			continue
		}
		kids := closedKids(f.t)
		if f.i < len(kids) {
			k := kids[f.i]
			f.i++
			if !p.defined[k.ID] && needsDef(k) {
				stack = append(stack, fr{k, 0})
			}
			continue
		}
		b := p.body(f.t)
		fmt.Fprintf(p.out, "(define-fun t%d () %s %s)\n", f.t.ID, f.t.S, b)
		p.defined[f.t.ID] = true
		stack = stack[:len(stack)-1]
	}
}

func needsDef(t *Term) bool {
	switch t.Op {
	case "const", "var", "bvar":
		return false
	case "uf":
		return len(t.Args) > 0 && !t.hasBound
	}
	return !t.hasBound
}

// closedKids lists maximal sub-terms without bound variables that need definitions.
func closedKids(t *Term) []*Term {
	var out []*Term
	var rec func(x *Term)
	seen := map[int]bool{}
	rec = func(x *Term) {
		for _, a := range x.Args {
			if seen[a.ID] {
				continue
			}
			seen[a.ID] = true
			if a.hasBound {
				rec(a)
			} else if needsDef(a) {
				out = append(out, a)
			}
		}
		for _, a := range x.Pat {
			if a.hasBound {
				rec(a)
			}
		}
	}
	rec(t)
	return out
}

func (p *Printer) body(t *Term) string {
	var sb strings.Builder
	args := func() {
		for _, a := range t.Args {
			sb.WriteByte(' ')
			sb.WriteString(p.ref(a))
		}
	}
	switch t.Op {
	case "const", "var", "bvar":
		return p.ref(t)
	case "uf":
		if len(t.Args) == 0 {
			return smtName(t.Name)
		}
		sb.WriteString("(" + smtName(t.Name))
		args()
		sb.WriteString(")")
	case "zext":
		fmt.Fprintf(&sb, "((_ zero_extend %d) %s)", t.P1, p.ref(t.Args[0]))
	case "sext":
		fmt.Fprintf(&sb, "((_ sign_extend %d) %s)", t.P1, p.ref(t.Args[0]))
	case "extract":
		fmt.Fprintf(&sb, "((_ extract %d %d) %s)", t.P1, t.P2, p.ref(t.Args[0]))
	case "constarr":
		fmt.Fprintf(&sb, "((as const %s) %s)", SArr, p.ref(t.Args[0]))
	case "lambda":
		fmt.Fprintf(&sb, "(lambda ((%s %s)) %s)", smtName(t.Bound[0].Name), t.Bound[0].S, p.ref(t.Args[0]))
	case "forall", "exists":
		sb.WriteString("(" + t.Op + " (")
		for _, b := range t.Bound {
			fmt.Fprintf(&sb, "(%s %s)", smtName(b.Name), b.S)
		}
		sb.WriteString(") ")
		if len(t.Pat) > 0 {
			sb.WriteString("(! " + p.ref(t.Args[0]) + " :pattern (")
			for i, pt := range t.Pat {
				if i > 0 {
					sb.WriteByte(' ')
				}
				sb.WriteString(p.ref(pt))
			}
			sb.WriteString("))")
		} else {
			sb.WriteString(p.ref(t.Args[0]))
		}
		sb.WriteString(")")
	case "i+", "i-", "i*", "idiv", "imod", "i<", "i<=", "i>", "i>=":
		sb.WriteString("(" + t.Op[1:])
		args()
		sb.WriteString(")")
	case "int2bv":
		fmt.Fprintf(&sb, "((_ int2bv %d) %s)", t.S.W, p.ref(t.Args[0]))
	case "bv2nat":
		fmt.Fprintf(&sb, "(bv2nat %s)", p.ref(t.Args[0]))
	default:
		sb.WriteString("(" + t.Op)
		args()
		sb.WriteString(")")
	}
	return sb.String()
}

// Script renders a standalone SMT-LIB2 script asserting the given terms.
func Script(asserts []*Term, header string) string {
	var defs strings.Builder
	p := &Printer{defined: map[int]bool{}, out: &defs}
	var as []string
	for _, a := range TS.axioms {
		as = append(as, p.ref(a))
	}
	for _, a := range asserts {
		as = append(as, p.ref(a))
	}
	var sb strings.Builder
	sb.WriteString(header)
	for _, d := range TS.decls {
		sb.WriteString(d)
		sb.WriteByte('\n')
	}
	sb.WriteString(defs.String())
	for _, a := range as {
		sb.WriteString("(assert " + a + ")\n")
	}
	sb.WriteString("(check-sat)\n")
	return sb.String()
}

func (t *Term) String() string {
	var sb strings.Builder
	p := &Printer{defined: map[int]bool{}, out: &sb}
	var rec func(t *Term, d int) string
	rec = func(t *Term, d int) string {
		if len(t.Args) == 0 || t.Op == "const" {
			return p.refNoDef(t)
		}
		if d > 6 {
			return fmt.Sprintf("t%d", t.ID)
		}
		s := "(" + t.Op
		if t.Op == "uf" {
			s = "(" + t.Name
		}
		if t.Op == "extract" {
			s += fmt.Sprintf("[%d:%d]", t.P1, t.P2)
		}
		for _, a := range t.Args {
			s += " " + rec(a, d+1)
		}
		return s + ")"
	}
	return rec(t, 0)
}

func (p *Printer) refNoDef(t *Term) string {
	switch t.Op {
	case "const", "var", "bvar":
		return p.ref(t)
	}
	if t.Op == "uf" {
		return t.Name
	}
	return fmt.Sprintf("t%d", t.ID)
}

// Vars collects free variable names of a term set (sorted).
func Vars(ts []*Term) []*Term {
	seen := map[int]bool{}
	var out []*Term
	var stack []*Term
	stack = append(stack, ts...)
	for len(stack) > 0 {
		t := stack[len(stack)-1]
		stack = stack[:len(stack)-1]
		if seen[t.ID] {
			continue
		}
		seen[t.ID] = true
		if t.Op == "var" {
			out = append(out, t)
		}
		stack = append(stack, t.Args...)
	}
	sort.Slice(out, func(i, j int) bool { return out[i].Name < out[j].Name })
	return out
}

// helpers
func U64(v uint64) *Term { return BVC(64, v) }
func I64(v int64) *Term  { return BVC(64, uint64(v)) }

func mul128(a, b uint64) (hi, lo uint64) { return bits.Mul64(a, b) }
