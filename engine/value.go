package main

import (
	"fmt"
	"go/types"
	"math/big"

	"golang.org/x/tools/go/ssa"
)

func newBig(s string, base int) (*big.Int, bool) { return new(big.Int).SetString(s, base) }

// ---------- values

type Value interface{}

type BV struct{ T *Term }   // any fixed-width integer
type Bool struct{ T *Term } // boolean
type IntV struct{ T *Term } // Int-mode integer (mathematical), with Go type width recorded at op time

// Slice (and string): Obj==0 is nil. Off/Len/Cap are BV64 terms. Cap counts from Off.
type Slice struct {
	Obj           int
	Off, Len, Cap *Term
}

// Ptr: Obj==0 is nil. For byte objects Idx is the element index; for cell objects Cell is the cell index and Path the field path.
type Ptr struct {
	Obj  int
	Idx  *Term
	Cell int
	Path []int
	Fn   *ssa.Function // pointer-to-function not used; kept nil
}

type Struct struct{ F []Value }
type ArrayV struct{ Obj int } // array value: owns object Obj (copy on value copy)
type Tuple struct{ V []Value }
type Iface struct {
	T types.Type // nil => nil interface
	V Value
}
type Closure struct {
	Fn    *ssa.Function
	Binds []Value
	Nat   string // native builtin name, if any
}
type MapV struct{ Obj int }
type Opaque struct {
	Tag string
	ID  int
	X   interface{}
}
type Abstract struct { // value of an uninterpreted sort (algebra)
	T *Term
}

type NilFunc struct{}

// ---------- heap objects

type ObjKind int

const (
	OBytes ObjKind = iota
	OCells
	OMap
)

type MapEntry struct {
	Key     Value
	Present bool
	Val     Value
}

type Obj struct {
	Kind  ObjKind
	Epoch int
	// bytes
	Arr *Term
	Len *Term // allocated length (BV64)
	// cells
	Cells []Value
	Elem  types.Type
	// map
	Entries   []MapEntry
	Arbitrary bool // unknown initial content
	KeyT      types.Type
	ValT      types.Type
	// tags
	Tag      string // "caller", "returned", ...
	ReadOnly bool
	Name     string
	AllocAt  string
	HexSrc   *HexSrc // set on strings produced by hex.EncodeToString: the bytes they encode
}

type HexSrc struct {
	Arr      *Term
	Off, Len *Term
}

func (o *Obj) clone(epoch int) *Obj {
	n := *o
	n.Epoch = epoch
	if o.Cells != nil {
		n.Cells = append([]Value(nil), o.Cells...)
	}
	if o.Entries != nil {
		n.Entries = append([]MapEntry(nil), o.Entries...)
	}
	return &n
}

func isByteType(t types.Type) bool {
	b, ok := t.Underlying().(*types.Basic)
	return ok && (b.Kind() == types.Uint8)
}

func intWidth(t types.Type) (w int, signed bool, ok bool) {
	b, isb := t.Underlying().(*types.Basic)
	if !isb {
		return 0, false, false
	}
	switch b.Kind() {
	case types.Int8:
		return 8, true, true
	case types.Int16:
		return 16, true, true
	case types.Int32:
		return 32, true, true
	case types.Int64, types.Int:
		return 64, true, true
	case types.Uint8:
		return 8, false, true
	case types.Uint16:
		return 16, false, true
	case types.Uint32:
		return 32, false, true
	case types.Uint64, types.Uint, types.Uintptr:
		return 64, false, true
	case types.UntypedInt:
		return 64, true, true
	case types.UntypedRune:
		return 32, true, true
	}
	return 0, false, false
}

func isBoolType(t types.Type) bool {
	b, ok := t.Underlying().(*types.Basic)
	return ok && (b.Kind() == types.Bool || b.Kind() == types.UntypedBool)
}

func isStringType(t types.Type) bool {
	b, ok := t.Underlying().(*types.Basic)
	return ok && (b.Kind() == types.String || b.Kind() == types.UntypedString)
}

func fmtVal(v Value) string {
	switch x := v.(type) {
	case BV:
		return x.T.String()
	case Bool:
		return x.T.String()
	case Slice:
		return fmt.Sprintf("slice{obj=%d off=%s len=%s cap=%s}", x.Obj, x.Off, x.Len, x.Cap)
	case Ptr:
		return fmt.Sprintf("ptr{obj=%d cell=%d path=%v idx=%v}", x.Obj, x.Cell, x.Path, x.Idx)
	case Struct:
		s := "struct{"
		for i, f := range x.F {
			if i > 0 {
				s += ", "
			}
			s += fmtVal(f)
		}
		return s + "}"
	case Iface:
		if x.T == nil {
			return "iface(nil)"
		}
		return fmt.Sprintf("iface(%s: %s)", x.T, fmtVal(x.V))
	case nil:
		return "<nil>"
	}
	return fmt.Sprintf("%T%v", v, v)
}
