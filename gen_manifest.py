#!/usr/bin/env python3
# regenerates MANIFEST.json from props.py (claimed checks) + the not-applicable table below
import json, sys
sys.path.insert(0, '/verif')
from props import PROPS
ALL = ["C%02d" % i for i in range(1, 21)]
NA = {}
try:
    from props import NOT_APPLICABLE as NA
except ImportError:
    pass
checks = []
for pid in ALL:
    c = PROPS.get(pid)
    if not c or c.get("unclaimed"):
        continue
    checks.append({
        "property_id": pid,
        "quick_cmd": "./check %s --tier quick" % pid,
        "thorough_cmd": "./check %s --tier thorough" % pid,
        "evidence_file": "/verif/evidence/%s.json" % pid,
        "replay_cmd_template": "./check %s --replay {path}" % pid,
        "engine": "gosmt",
        "level_claimed": {"category": "model_checking", "text": c.get("level_text", ""), "design_ref": c.get("design_ref", "DESIGN.md section 5, " + pid)},
        "level_note": c.get("level_note", ""),
        "technique": c.get("technique", "bounded symbolic execution of the real Go SSA into SMT-LIB2 (bit-vectors + arrays), decided by z3 5.1.0; counterexamples replayed natively"),
    })
na = []
for pid in ALL:
    if pid not in [c["property_id"] for c in checks]:
        na.append({"property_id": pid, "reason": NA.get(pid, "check not built yet in this session; will be claimed when it runs clean on the unchanged tree")})
m = {
    "version": 1,
    "setup_cmd": "cd /verif && ./setup.sh",
    "hooks": {"guard": "verif", "enable": "no source hooks: harnesses are injected with go/packages Overlay (symbolic) and go test -overlay (replay); nothing is compiled into /repo", "baseline_off_cmd": "cd /repo && go test -mod=mod -vet=off -count=1 -timeout 25m ./...", "source_commits": [], "add_only": True},
    "engines": [{"name": "gosmt", "path": "/verif/engine", "serves_properties": [c["property_id"] for c in checks], "kind_free_text": "path-forking symbolic executor for go/ssa emitting SMT-LIB2 to a long-lived z3 5.1.0 process; native replay through go test -overlay"}],
    "checks": checks,
    "not_applicable": na,
    "notes": "Every pass is bounded (lengths, unwind counts stated in evidence) and relative to the stub contracts listed in evidence/assumptions. See DESIGN.md.",
}
json.dump(m, open('/verif/MANIFEST.json', 'w'), indent=1)
print("claimed:", [c["property_id"] for c in checks])
