package ecdsa

// C03 (key blinding with a peer-supplied blind): the rate-limited attester turns the blind bytes a
// client sends into a key with CreateKey and runs the fork's blinding on it. No blind of any
// length, with or without leading zeros, below or far above the group order, and no context may
// crash BlindPublicKeyWithContext / UnblindPublicKeyWithContext / BlindKeySignWithContext.
func VerifC03_ecdsa_blind_ops() {
	vUnwind(200)
	vUseModels("bigalg")
	c := c13Curve()
	priv, err := GenerateKey(c, &c13Reader{failAt: 1000})
	vAssume(err == nil)
	var enc []byte
	short := vBool("short_blind")
	if short {
		// every encoding of up to three bytes (leading zeros, zero itself, the empty string)
		enc = vBytesC("blind_key", 0, 3)
	} else {
		// lengths around the order size and well above it (quick), every length up to the bound
		// (thorough); bit length pinned by the top byte
		bl := (c.Params().BitSize + 7) / 8
		if vBound("C03_blind_key_all_lengths", 0, 1) == 1 {
			enc = vBytesC("blind_key", 1, 75)
		} else {
			lens := []int{bl - 1, bl, bl + 1, bl + 2, 2 * bl, 2*bl + 9}
			enc = vBytes("blind_key", 0, 0)
			n := lens[vSplit(vInt("length_choice", 0, len(lens)-1), 0, len(lens)-1)]
			enc = vBytesC("blind_key_bytes", n, n)
		}
		vAssume(enc[0] >= 0x80)
	}
	bk, err := CreateKey(c, enc)
	vAssume(err == nil)
	ctx := vBytesC("context", 0, 1)
	op := vSplit(vInt("operation", 0, 2), 0, 2)
	// (the three operations share the derivation of the factor; the short encodings go through
	// the two public-key operations only, to keep the path count down)
	vAssume(!short || op != 2)
	switch op {
	case 0:
		_, _ = BlindPublicKeyWithContext(c, &priv.PublicKey, bk, ctx)
	case 1:
		_, _ = UnblindPublicKeyWithContext(c, &priv.PublicKey, bk, ctx)
	default:
		_, _, _ = BlindKeySignWithContext(&c13Reader{failAt: 1000}, priv, bk, vBytesC("digest", 0, 1), ctx)
	}
	vReach("no-crash")
}
