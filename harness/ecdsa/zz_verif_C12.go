package ecdsa

import (
	"crypto"
	"crypto/elliptic"
	"math/big"

	"github.com/cloudflare/circl/expander"
	"github.com/cloudflare/circl/group"
)

// C12 (blinding factor): the blinded public key is the public key multiplied by
// hash_to_field(XMD with the curve's hash, DST "ECDSA Key Blind", L per the key-blinding draft)
// of  minimal-big-endian(D_blind) || 0x00 || context, recomputed here without the fork's code.

func c12Suite(name string) (crypto.Hash, uint) {
	switch name {
	case "P-256":
		return crypto.SHA256, 48
	case "P-384":
		return crypto.SHA384, 72
	case "P-521":
		return crypto.SHA512, 98
	}
	return crypto.SHA256, 32 // P-224: no suite in the draft; the package's own choice
}

func c12Factor(c elliptic.Curve, blind *big.Int, ctx []byte) *big.Int {
	h, l := c12Suite(c.Params().Name)
	msg := append(append(blind.Bytes(), 0x00), ctx...)
	var u [1]big.Int
	group.HashToField(u[:], msg, expander.NewExpanderMD(h, []byte("ECDSA Key Blind")), c.Params().N, l)
	return &u[0]
}

func VerifC12_blind_factor() {
	vUnwind(80)
	vUseModels("bigalg")
	c := c13Curve()
	priv, err := GenerateKey(c, &c13Reader{failAt: 1000})
	vAssume(err == nil)
	// blind key encodings of any length up to one byte more than the order: leading zeros, values >= n
	var enc []byte
	if vBool("near_order") {
		// quick tier: the two curves pat-go itself uses for blinding vectors; thorough: all four
		vAssume(vBound("C12_near_order_all_curves", 0, 1) == 1 || c.Params().BitSize == 256 || c.Params().BitSize == 384)
		bl := (c.Params().BitSize + 7) / 8
		enc = vBytesC("blind_key", bl-1, bl+1) // around the size of n: values below and above n
	} else {
		enc = vBytesC("blind_key", 1, vBound("C12_blind_len", 3, 10))
	}
	bk, err := CreateKey(c, enc)
	vAssume(err == nil)
	ctx := vBytesC("context", 0, vBound("C12_ctx_len", 2, 4))

	got, err := BlindPublicKeyWithContext(c, &priv.PublicKey, bk, ctx)
	vAssert(err == nil, "blinds")
	if err != nil {
		return
	}
	f := c12Factor(c, new(big.Int).SetBytes(enc), ctx)
	wx, wy := c.ScalarMult(priv.PublicKey.X, priv.PublicKey.Y, f.Bytes())
	vAssert(vBytesEq(got.X.Bytes(), wx.Bytes()), "blinded-key-x-is-pk-times-reference-factor")
	vAssert(vBytesEq(got.Y.Bytes(), wy.Bytes()), "blinded-key-y-is-pk-times-reference-factor")

	// the signing side derives the same blinded public key
	vReach("factor")
}

// changing the blind or the context changes the blinding factor input (hence, the action being
// free, the blinded key): the map (D, ctx) -> bytes(D) || 0x00 || ctx is injective in each argument
func VerifC12_factor_input_injective() {
	vUnwind(40)
	m := vBound("C12_inj_len", 4, 6)
	d1, d2 := vBytesC("d1", 1, m), vBytesC("d2", 1, m)
	c1, c2 := vBytesC("c1", 0, m), vBytesC("c2", 0, m)
	vAssume(d1[0] != 0 && d2[0] != 0) // minimal big-endian forms
	in1 := append(append(append([]byte{}, d1...), 0x00), c1...)
	in2 := append(append(append([]byte{}, d2...), 0x00), c2...)
	if vBytesEq(c1, c2) {
		vAssert(vBytesEq(in1, in2) == vBytesEq(d1, d2), "same-context-different-blind-different-input")
		vReach("blind-varies")
	}
	if vBytesEq(d1, d2) {
		vAssert(vBytesEq(in1, in2) == vBytesEq(c1, c2), "same-blind-different-context-different-input")
		vReach("context-varies")
	}
}

func c12Blind(name string, c elliptic.Curve, topBitSet bool) (*PrivateKey, []byte) {
	enc := vBytesC(name, 1, vBound("C12_alg_blind_len", 2, 8))
	if topBitSet {
		// the serialisation of the blind (leading zeros, bit lengths) is the subject of
		// VerifC12_blind_factor; here its bit length is pinned to keep the path count down
		vAssume(enc[0] >= 0x80)
	}
	bk, err := CreateKey(c, enc)
	vAssume(err == nil)
	return bk, vBytesC(name+"_context", 0, vBound("C12_alg_ctx_len", 1, 4))
}

// C12 (group laws of the fork's glue): over a scalar action that is commutative and in which
// ModInverse(f, n) undoes f, unblinding with the same blind and context returns the public key
// (in either order of the two operations), and two blindings commute. What is decided is that the
// fork derives the same factor on both sides, inverts it modulo the group order, and applies it to
// the right point; that crypto/elliptic is such an action is the dependency's contract.
func VerifC12_unblind_inverts_blind() {
	vUnwind(80)
	vUseModels("bigalg")
	c := c13Curve()
	priv, err := GenerateKey(c, &c13Reader{failAt: 1000})
	vAssume(err == nil)
	pk := &priv.PublicKey
	bk, ctx := c12Blind("blind", c, false)
	blinded, err := BlindPublicKeyWithContext(c, pk, bk, ctx)
	vAssert(err == nil, "blinds")
	back, err := UnblindPublicKeyWithContext(c, blinded, bk, ctx)
	vAssert(err == nil, "unblinds")
	vAssert(vBytesEq(back.X.Bytes(), pk.X.Bytes()), "unblind-inverts-blind-x")
	vAssert(vBytesEq(back.Y.Bytes(), pk.Y.Bytes()), "unblind-inverts-blind-y")
	// and the other way round
	un, err := UnblindPublicKeyWithContext(c, pk, bk, ctx)
	vAssert(err == nil, "unblinds-first")
	again, err := BlindPublicKeyWithContext(c, un, bk, ctx)
	vAssert(err == nil, "blinds-second")
	vAssert(vBytesEq(again.X.Bytes(), pk.X.Bytes()), "blind-inverts-unblind-x")
	vAssert(vBytesEq(again.Y.Bytes(), pk.Y.Bytes()), "blind-inverts-unblind-y")
	// the context-free entry points are the empty-context ones
	b0, err := BlindPublicKey(c, pk, bk)
	vAssert(err == nil, "blinds-without-context")
	b0c, _ := BlindPublicKeyWithContext(c, pk, bk, []byte{})
	vAssert(vBytesEq(b0.X.Bytes(), b0c.X.Bytes()), "no-context-is-empty-context")
	u0, err := UnblindPublicKey(c, b0, bk)
	vAssert(err == nil, "unblinds-without-context")
	vAssert(vBytesEq(u0.X.Bytes(), pk.X.Bytes()), "unblind-inverts-blind-without-context")
	vReach("inverse")
}

func VerifC12_blinds_commute() {
	vUnwind(80)
	vUseModels("bigalg")
	c := c13Curve()
	priv, err := GenerateKey(c, &c13Reader{failAt: 1000})
	vAssume(err == nil)
	pk := &priv.PublicKey
	bk1, ctx1 := c12Blind("blind1", c, true)
	bk2, ctx2 := c12Blind("blind2", c, true)
	k1, err := BlindPublicKeyWithContext(c, pk, bk1, ctx1)
	vAssume(err == nil)
	k12, err := BlindPublicKeyWithContext(c, k1, bk2, ctx2)
	vAssume(err == nil)
	k2, err := BlindPublicKeyWithContext(c, pk, bk2, ctx2)
	vAssume(err == nil)
	k21, err := BlindPublicKeyWithContext(c, k2, bk1, ctx1)
	vAssume(err == nil)
	vAssert(vBytesEq(k12.X.Bytes(), k21.X.Bytes()), "two-blindings-commute-x")
	vAssert(vBytesEq(k12.Y.Bytes(), k21.Y.Bytes()), "two-blindings-commute-y")
	// removing the first blind from the doubly blinded key leaves the second blinding
	u, err := UnblindPublicKeyWithContext(c, k12, bk1, ctx1)
	vAssume(err == nil)
	vAssert(vBytesEq(u.X.Bytes(), k2.X.Bytes()), "unblinding-one-of-two-leaves-the-other-x")
	vAssert(vBytesEq(u.Y.Bytes(), k2.Y.Bytes()), "unblinding-one-of-two-leaves-the-other-y")
	vReach("commute")
}

// C12 (signing side): BlindKeySignWithContext signs with the key pair (pk * f, (d f) mod n) for the
// same factor f that BlindPublicKeyWithContext applies, so that (ideal signatures, valid only for
// matching key pairs) the signature verifies under the blinded public key and, the blinded key
// being another point, not under the original one. Natively all of this is the real arithmetic.
func VerifC12_blind_sign_verifies() {
	vUnwind(80)
	vUseModels("bigalg")
	vUseModels("c12sign")
	c := c13Curve()
	priv, err := GenerateKey(c, &c13Reader{failAt: 1000})
	vAssume(err == nil)
	pk := &priv.PublicKey
	bk, ctx := c12Blind("blind", c, true)
	hash := vBytesC("hash", 0, vBound("C12_hash_len", 2, 70))
	r, s, err := BlindKeySignWithContext(&c13Reader{failAt: 1000}, priv, bk, hash, ctx)
	vAssert(err == nil, "blind-signs")
	if err != nil {
		return
	}
	pkB, err := BlindPublicKeyWithContext(c, pk, bk, ctx)
	vAssert(err == nil, "blinds")
	vAssert(Verify(pkB, hash, r, s), "blinded-signature-verifies-under-blinded-key")
	// the factor is not 1 (an event of probability 2^-bits)
	vAssume(!vBytesEq(pkB.X.Bytes(), pk.X.Bytes()))
	vAssert(!Verify(pk, hash, r, s), "blinded-signature-does-not-verify-under-original-key")
	// an ordinary signature verifies under the ordinary key, and the unblinded blinded key is that key
	r0, s0, err := Sign(&c13Reader{failAt: 1000}, priv, hash)
	vAssert(err == nil, "signs")
	back, err := UnblindPublicKeyWithContext(c, pkB, bk, ctx)
	vAssert(err == nil, "unblinds")
	if err == nil {
		vAssert(Verify(back, hash, r0, s0), "plain-signature-verifies-under-unblinded-blinded-key")
	}
	if vBytesEq(ctx, []byte{}) {
		// the context-free entry point signs for the empty context
		r1, s1, err := BlindKeySign(&c13Reader{failAt: 1000}, priv, bk, hash)
		vAssert(err == nil, "blind-signs-without-context")
		if err == nil {
			vAssert(Verify(pkB, hash, r1, s1), "context-free-signature-verifies-under-empty-context-key")
		}
	}
	vReach("signed")
}

// C12 / C13 (verification is a query): Verify does not change the signature it is given, so that
// the same (r, s) can be checked again, under another key or by another verifier (the property's
// "verifies under the blinded key but not under the original" is two checks of one signature)
func VerifC12_verify_keeps_signature() {
	vUnwind(160)
	vUseModels("bigalg")
	c := c13Curve()
	priv, err := GenerateKey(c, &c13Reader{failAt: 1000})
	vAssume(err == nil)
	hash := vBytesC("hash", 0, 1)
	bl := (c.Params().BitSize + 7) / 8
	var rb, sb []byte
	if vBool("honest_signature") {
		r0, s0, err := Sign(&c13Reader{failAt: 1000}, priv, hash)
		vAssume(err == nil)
		rb, sb = r0.Bytes(), s0.Bytes()
		vAssume(len(rb) == bl && len(sb) == bl && rb[0] != 0 && sb[0] != 0)
	} else {
		rb, sb = vBytesC("r", bl, bl), vBytesC("s", bl, bl)
		vAssume(rb[0] != 0 && sb[0] != 0)
	}
	r, s := new(big.Int).SetBytes(rb), new(big.Int).SetBytes(sb)
	first := Verify(&priv.PublicKey, hash, r, s)
	vAssert(vBytesEq(r.Bytes(), rb), "r-unchanged-by-verify")
	vAssert(vBytesEq(s.Bytes(), sb), "s-unchanged-by-verify")
	vAssert(Verify(&priv.PublicKey, hash, r, s) == first, "second-check-gives-the-same-verdict")
	vReach("verified-twice")
}
