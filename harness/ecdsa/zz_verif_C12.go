package ecdsa

import (
	"crypto"
	"crypto/elliptic"
	"math/big"

	"github.com/cloudflare/circl/expander"
	"github.com/cloudflare/circl/group"
)

// C12 (blinding factor): the blinded public key is the public key multiplied by
// hash_to_field(XMD with the curve's hash, DST "ECDSA Key Blind", L per the key-blinding draft)
// of  minimal-big-endian(D_blind) || 0x00 || context, recomputed here without the fork's code.

func c12Suite(name string) (crypto.Hash, uint) {
	switch name {
	case "P-256":
		return crypto.SHA256, 48
	case "P-384":
		return crypto.SHA384, 72
	case "P-521":
		return crypto.SHA512, 98
	}
	return crypto.SHA256, 32 // P-224: no suite in the draft; the package's own choice
}

func c12Factor(c elliptic.Curve, blind *big.Int, ctx []byte) *big.Int {
	h, l := c12Suite(c.Params().Name)
	msg := append(append(blind.Bytes(), 0x00), ctx...)
	var u [1]big.Int
	group.HashToField(u[:], msg, expander.NewExpanderMD(h, []byte("ECDSA Key Blind")), c.Params().N, l)
	return &u[0]
}

func VerifC12_blind_factor() {
	vUnwind(80)
	vUseModels("bigalg")
	c := c13Curve()
	priv, err := GenerateKey(c, &c13Reader{failAt: 1000})
	vAssume(err == nil)
	// blind key encodings of any length up to one byte more than the order: leading zeros, values >= n
	var enc []byte
	if vBool("near_order") {
		// quick tier: the two curves pat-go itself uses for blinding vectors; thorough: all four
		vAssume(vBound("C12_near_order_all_curves", 0, 1) == 1 || c.Params().BitSize == 256 || c.Params().BitSize == 384)
		bl := (c.Params().BitSize + 7) / 8
		enc = vBytesC("blind_key", bl-1, bl+1) // around the size of n: values below and above n
	} else {
		enc = vBytesC("blind_key", 1, vBound("C12_blind_len", 3, 20))
	}
	bk, err := CreateKey(c, enc)
	vAssume(err == nil)
	ctx := vBytesC("context", 0, vBound("C12_ctx_len", 2, 6))

	got, err := BlindPublicKeyWithContext(c, &priv.PublicKey, bk, ctx)
	vAssert(err == nil, "blinds")
	if err != nil {
		return
	}
	f := c12Factor(c, new(big.Int).SetBytes(enc), ctx)
	wx, wy := c.ScalarMult(priv.PublicKey.X, priv.PublicKey.Y, f.Bytes())
	vAssert(vBytesEq(got.X.Bytes(), wx.Bytes()), "blinded-key-x-is-pk-times-reference-factor")
	vAssert(vBytesEq(got.Y.Bytes(), wy.Bytes()), "blinded-key-y-is-pk-times-reference-factor")

	// the signing side derives the same blinded public key
	vReach("factor")
}

// changing the blind or the context changes the blinding factor input (hence, the action being
// free, the blinded key): the map (D, ctx) -> bytes(D) || 0x00 || ctx is injective in each argument
func VerifC12_factor_input_injective() {
	vUnwind(40)
	m := vBound("C12_inj_len", 4, 6)
	d1, d2 := vBytesC("d1", 1, m), vBytesC("d2", 1, m)
	c1, c2 := vBytesC("c1", 0, m), vBytesC("c2", 0, m)
	vAssume(d1[0] != 0 && d2[0] != 0) // minimal big-endian forms
	in1 := append(append(append([]byte{}, d1...), 0x00), c1...)
	in2 := append(append(append([]byte{}, d2...), 0x00), c2...)
	if vBytesEq(c1, c2) {
		vAssert(vBytesEq(in1, in2) == vBytesEq(d1, d2), "same-context-different-blind-different-input")
		vReach("blind-varies")
	}
	if vBytesEq(d1, d2) {
		vAssert(vBytesEq(in1, in2) == vBytesEq(c1, c2), "same-blind-different-context-different-input")
		vReach("context-varies")
	}
}
