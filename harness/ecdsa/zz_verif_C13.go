package ecdsa

import (
	"crypto/elliptic"
	"math/big"
)

// C13: the ECDSA fork accepts and produces exactly standard ECDSA (range gate, hashToInt,
// entropy faults; the ASN.1 front end is compared with the standard library's in zz_verif_C13b.go).

// FIPS 186-4: a signature is examined further only if 0 < r < n and 0 < s < n; everything else is
// rejected without touching the arithmetic (in particular without inverting s = 0).
func VerifC13_range_gate() {
	vUnwind(80)
	vUseModels("bigalg")
	c := c13Curve()
	n := c.Params().N
	byteLen := (c.Params().BitSize + 7) / 8
	priv, err := GenerateKey(c, &c13Reader{failAt: 1000})
	vAssume(err == nil)
	// r and s: any integer of up to byteLen+1 bytes, either sign (covers 0, negatives, >= n)
	which := vBool("vary_r")
	r, s := big.NewInt(1), big.NewInt(1)
	if vBool("order_sized") {
		// a value of exactly the order's length: below, equal to or above n
		v := new(big.Int).SetBytes(vBytesC("order_sized_value", byteLen, byteLen))
		if which {
			r = v
		} else {
			s = v
		}
	} else if which {
		r = c13Int("r", vBound("C13_int_len", 3, 67))
	} else {
		s = c13Int("s", vBound("C13_int_len", 3, 67))
	}
	inRange := r.Sign() > 0 && s.Sign() > 0 && r.Cmp(n) < 0 && s.Cmp(n) < 0
	ok := Verify(&priv.PublicKey, vBytesC("digest", 0, 2), r, s)
	if !inRange {
		vAssert(!ok, "out-of-range-signature-rejected")
		vReach("out-of-range")
	} else {
		vReach("in-range")
	}
}

// hashToInt = the leftmost min(8*len, bitlen(n)) bits of the digest, for digests of 0..128 bytes
func VerifC13_hash_to_int() {
	vUnwind(140)
	vUseModels("bigalg")
	c := c13Curve()
	bits := c.Params().BitSize // = bit length of n for the four curves
	digest := vBytesC("digest", 0, vBound("C13_digest_len", 72, 128))
	got := hashToInt(digest, c)
	// reference: take the first ceil(bits/8) bytes, then drop the excess low bits
	ob := (bits + 7) / 8
	d := digest
	if len(d) > ob {
		d = d[:ob]
	}
	want := make([]byte, len(d))
	excess := len(d)*8 - bits
	if excess > 0 {
		sh := uint(excess)
		for i := len(d) - 1; i >= 0; i-- {
			want[i] = d[i] >> sh
			if i > 0 {
				want[i] |= d[i-1] << (8 - sh)
			}
		}
	} else {
		copy(want, d)
	}
	buf := make([]byte, len(d))
	got.FillBytes(buf)
	vAssert(vBytesEq(buf, want), "leftmost-bits-of-the-digest")
	vReach("hash-to-int")
}

// if the entropy source fails at any read, key generation and signing return an error and nothing else
func VerifC13_entropy_faults() {
	vUnwindAssume(6)
	vUseModels("bigalg")
	c := elliptic.P256()
	rd := &c13Reader{failAt: vSplit(vInt("fail_at", 0, 6), 0, 6), short: vBool("short_reads")}
	switch vSplit(vInt("op", 0, 3), 0, 3) {
	case 0:
		k, err := GenerateKey(c, rd)
		if rd.failed {
			vAssert(err != nil, "generate-key-reports-entropy-failure")
			vAssert(k == nil, "generate-key-returns-no-key")
			vReach("generate-failed")
		} else {
			vAssert(err == nil && k != nil, "generate-key-succeeds-with-working-entropy")
			// a key is only ever made from the full amount of entropy (short reads are continued)
			vAssert(rd.given >= c.Params().BitSize/8+8, "generate-key-consumed-all-the-entropy-it-asks-for")
			vReach("generate-ok")
		}
	case 1:
		priv, err := GenerateKey(c, &c13Reader{failAt: 1000})
		vAssume(err == nil)
		r, s, err := Sign(rd, priv, vBytesC("digest", 0, 1))
		if rd.failed && !c13OnlyDiscardedReadFailed(rd) {
			vAssert(err != nil, "sign-reports-entropy-failure")
			vAssert(r == nil && s == nil, "sign-returns-no-signature")
			vReach("sign-failed")
		} else if !rd.failed {
			vAssert(err == nil && r != nil && s != nil, "sign-succeeds-with-working-entropy")
			vAssert(rd.given >= 32, "sign-consumed-all-the-entropy-it-asks-for")
			vReach("sign-ok")
		}
	case 2:
		priv, err := GenerateKey(c, &c13Reader{failAt: 1000})
		vAssume(err == nil)
		sig, err := SignASN1(rd, priv, vBytesC("digest", 0, 1))
		if rd.failed {
			vAssert(err != nil, "sign-asn1-reports-entropy-failure")
			vAssert(sig == nil, "sign-asn1-returns-no-signature")
			vReach("sign-asn1-failed")
		}
	case 3:
		priv, err := GenerateKey(c, &c13Reader{failAt: 1000})
		vAssume(err == nil)
		bk, err := GenerateKey(c, &c13Reader{failAt: 1000})
		vAssume(err == nil)
		r, s, err := BlindKeySignWithContext(rd, priv, bk, vBytesC("digest", 0, 1), []byte("ctx"))
		if rd.failed {
			vAssert(err != nil, "blind-sign-reports-entropy-failure")
			vAssert(r == nil && s == nil, "blind-sign-returns-no-signature")
			vReach("blind-sign-failed")
		}
	}
}

// failures are sticky, so a reader that failed has failed for the read Sign depends on as well
func c13OnlyDiscardedReadFailed(rd *c13Reader) bool { return false }

// C03 (signature verification): no (r, s) and no byte string offered as a DER signature makes the
// fork's verification panic.
func VerifC03_ecdsa_verify() {
	vUnwind(80)
	vUseModels("bigalg")
	c := c13Curve()
	priv, err := GenerateKey(c, &c13Reader{failAt: 1000})
	vAssume(err == nil)
	if vBool("asn1") {
		sig := vBytesC("sig", 0, vBound("C03_ecdsa_sig_len", 9, 12))
		_ = VerifyASN1(&priv.PublicKey, vBytesC("digest", 0, 1), sig)
		vReach("asn1")
		return
	}
	r, s := c13Int("r", 2), c13Int("s", 2)
	_ = Verify(&priv.PublicKey, vBytesC("digest", 0, 1), r, s)
	vReach("raw")
}

// C12 (signing side, digest handling): the blinded signature is made over the same integer that a
// standard verifier derives from the digest, for digests shorter and longer than the order (the
// truncation rule of hashToInt, decided for every digest length under C13, restated here because
// a blinded signature that a standard verifier rejects is a C12 failure as well)
func VerifC12_sign_digest_truncation() {
	VerifC13_hash_to_int()
}
