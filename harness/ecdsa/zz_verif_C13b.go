package ecdsa

import (
	"crypto/elliptic"
	"crypto/rand"
)

// C13 (ASN.1 front end).

// strict DER reference for ECDSA-Sig-Value ::= SEQUENCE { r INTEGER, s INTEGER }:
// returns whether b is exactly one such value (minimal lengths, minimal integers, nothing left over)
func c13DerLen(b []byte) (length, used int, ok bool) {
	if len(b) == 0 {
		return 0, 0, false
	}
	if b[0] < 0x80 {
		return int(b[0]), 1, true
	}
	n := int(b[0] & 0x7f)
	if n == 0 || n > 2 || len(b) < 1+n {
		return 0, 0, false
	}
	l := 0
	for i := 0; i < n; i++ {
		l = l<<8 | int(b[1+i])
	}
	if l < 0x80 || (n == 2 && l < 0x100) {
		return 0, 0, false // not the shortest form
	}
	return l, 1 + n, true
}

func c13DerInt(b []byte) (used int, ok bool) {
	if len(b) < 1 || b[0] != 0x02 {
		return 0, false
	}
	l, u, ok := c13DerLen(b[1:])
	if !ok || l == 0 || len(b) < 1+u+l {
		return 0, false
	}
	v := b[1+u : 1+u+l]
	if l > 1 {
		if v[0] == 0x00 && v[1]&0x80 == 0 {
			return 0, false
		}
		if v[0] == 0xff && v[1]&0x80 != 0 {
			return 0, false
		}
	}
	return 1 + u + l, true
}

func c13DerSig(b []byte) bool {
	if len(b) < 1 || b[0] != 0x30 {
		return false
	}
	l, u, ok := c13DerLen(b[1:])
	if !ok || len(b) != 1+u+l {
		return false
	}
	body := b[1+u:]
	n1, ok := c13DerInt(body)
	if !ok {
		return false
	}
	n2, ok := c13DerInt(body[n1:])
	if !ok {
		return false
	}
	return n1+n2 == len(body)
}

// the parser in front of Verify accepts exactly strict DER (all byte strings up to the bound)
func VerifC13_asn1_parser_is_strict_der() {
	vUnwind(40)
	vUseModels("c13parse")
	vUseModels("bigalg")
	b := vBytesC("sig", 0, vBound("C13_asn1_len", 9, 11))
	pub := &PublicKey{Curve: elliptic.P256()}
	got := VerifyASN1(pub, nil, b)
	if !vSymbolic() {
		return // natively the verdict also depends on the signature value
	}
	want := c13DerSig(b)
	vAssert(got == want, "front-end-accepts-exactly-strict-der")
	if want {
		vReach("accepted")
	} else {
		vReach("rejected")
	}
}

// value-preserving re-encodings of an honest DER signature are rejected (strictness, natively replayable)
func VerifC13_asn1_malleations_rejected() {
	vUnwind(80)
	vUseModels("ecsig")
	priv, err := GenerateKey(elliptic.P384(), rand.Reader)
	vAssume(err == nil)
	digest := vBytesC("digest", 0, 1)
	sig, err := SignASN1(rand.Reader, priv, digest)
	vAssume(err == nil)
	vAssert(VerifyASN1(&priv.PublicKey, digest, sig), "honest-der-signature-verifies")
	vAssume(len(sig) >= 8 && sig[1] < 0x80) // short-form outer length (always the case up to P-384)
	var bad []byte
	switch vSplit(vInt("malleation", 0, 3), 0, 3) {
	case 0: // trailing byte after the SEQUENCE
		bad = append(append([]byte{}, sig...), vByte("trailing"))
		vReach("trailing-data")
	case 1: // outer length in long form
		bad = append([]byte{0x30, 0x81, sig[1]}, sig[2:]...)
		vReach("long-form-length")
	case 2: // r padded with a leading zero byte (non-minimal INTEGER)
		vAssume(sig[2] == 0x02 && sig[3] < 0x7f && sig[4]&0x80 == 0)
		bad = append([]byte{0x30, sig[1] + 1, 0x02, sig[3] + 1, 0x00}, sig[4:]...)
		vReach("non-minimal-integer")
	case 3: // an extra element inside the SEQUENCE
		bad = append(append([]byte{0x30, sig[1] + 2}, sig[2:]...), 0x05, 0x00)
		vReach("extra-element")
	}
	vAssert(!VerifyASN1(&priv.PublicKey, digest, bad), "re-encoded-signature-rejected")
}
