package ecdsa

import (
	stdecdsa "crypto/ecdsa"
	"math/big"
)

// C13 (glue equivalence of verification): the fork's Verify and the Go standard library's
// crypto/ecdsa.Verify (its generic big.Int implementation, verifyLegacy, reached through the
// signature's ASN.1 encoding) are both executed from their source over the same uninterpreted
// integer and curve arithmetic: for every public key, digest and pair of integers r, s (any sign,
// below and above the group order) they return the same verdict. Natively the standard library
// side is the nistec implementation of the named curve.
func VerifC13_verify_equals_stdlib() {
	vUnwind(160)
	vUseModels("bigalg")
	c := c13Curve()
	priv, err := GenerateKey(c, &c13Reader{failAt: 1000})
	vAssume(err == nil)
	hash := vBytesC("hash", 0, vBound("C13_diff_hash_len", 1, 2))
	var r, s *big.Int
	class := "" // one assertion label per input class: each class gets its own native replay
	if vBool("honest_signature") {
		// a signature made by the fork's own Sign (natively a valid one: a verifier that has drifted
		// from the standard one is then caught red-handed on replay)
		r, s, err = Sign(&c13Reader{failAt: 1000}, priv, hash)
		vAssume(err == nil)
		// taken as given integers of full length from here on (255/256 of all signatures each)
		bl := (c.Params().BitSize + 7) / 8
		rb, sb := r.Bytes(), s.Bytes()
		vAssume(len(rb) == bl && len(sb) == bl && rb[0] != 0 && sb[0] != 0)
		r, s = new(big.Int).SetBytes(rb), new(big.Int).SetBytes(sb)
		class = "-on-honest-signature"
		switch vSplit(vInt("malleation", 0, 2), 0, 2) {
		case 1:
			class = "-on-s-plus-n"
			// s + n: the same residue, but not a number below the order (natively the honest
			// signature makes a verifier that forgot the upper bound accept)
			s = new(big.Int).SetBytes(c13AddBytes(sb, c.Params().N.Bytes()))
		case 2:
			class = "-on-r-plus-n"
			r = new(big.Int).SetBytes(c13AddBytes(rb, c.Params().N.Bytes()))
		}
	} else if vBool("near_order") {
		bl := (c.Params().BitSize + 7) / 8
		rb, sb := vBytesC("r", bl, bl), vBytesC("s", bl, bl)
		// full-length values (shorter ones are the other case); either side of the group order
		vAssume(rb[0] != 0 && sb[0] != 0)
		r, s = new(big.Int).SetBytes(rb), new(big.Int).SetBytes(sb)
	} else {
		r, s = c13Int("r", vBound("C13_diff_int_len", 1, 1)), c13Int("s", vBound("C13_diff_int_len", 1, 1))
	}
	got := Verify(&priv.PublicKey, hash, r, s)
	want := stdecdsa.Verify(&stdecdsa.PublicKey{Curve: c, X: priv.PublicKey.X, Y: priv.PublicKey.Y}, hash, r, s)
	vAssert(got == want, "verdict-equals-stdlib"+class)
	if got {
		vReach("accepted")
	} else {
		vReach("rejected")
	}
}

// a + b on big-endian byte strings of equal length; the result is one byte longer
func c13AddBytes(a, b []byte) []byte {
	out := make([]byte, len(a)+1)
	var carry uint16
	for i := len(a) - 1; i >= 0; i-- {
		v := uint16(a[i]) + carry
		if j := i - (len(a) - len(b)); j >= 0 && j < len(b) {
			v += uint16(b[j])
		}
		out[i+1] = byte(v)
		carry = v >> 8
	}
	out[0] = byte(carry)
	return out
}
