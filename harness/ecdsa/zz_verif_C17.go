package ecdsa

import "crypto/elliptic"

// C17 (ecdsa fork keys): signing, verification and blinding with shared keys.
func VerifC17_ecdsa_keys() {
	vUnwindAssume(6)
	vUseModels("bigalg")
	c := elliptic.P384()
	priv, err := GenerateKey(c, &c13Reader{failAt: 1000})
	vAssume(err == nil)
	bk, err := GenerateKey(c, &c13Reader{failAt: 1000})
	vAssume(err == nil)
	r0, s0, err := Sign(&c13Reader{failAt: 1000}, priv, []byte("d"))
	vAssume(err == nil)
	op := vSplit(vInt("op", 0, 4), 0, 4)
	vConcurrently(func() {
		switch op {
		case 0:
			_, _, _ = Sign(&c13Reader{failAt: 1000}, priv, []byte("digest"))
		case 1:
			_ = Verify(&priv.PublicKey, []byte("d"), r0, s0)
		case 2:
			_, _ = BlindPublicKeyWithContext(c, &priv.PublicKey, bk, []byte("c"))
		case 3:
			_, _ = UnblindPublicKeyWithContext(c, &priv.PublicKey, bk, []byte("c"))
		case 4:
			_, _, _ = BlindKeySignWithContext(&c13Reader{failAt: 1000}, priv, bk, []byte("digest"), []byte("c"))
		}
	})
	vSharedEnd()
	vReach("called")
}
