package ecdsa

import (
	"crypto/elliptic"
	"errors"
	"math/big"
)

func c13Curve() elliptic.Curve {
	switch vSplit(vInt("curve", 0, 3), 0, 3) {
	case 0:
		return elliptic.P224()
	case 1:
		return elliptic.P256()
	case 2:
		return elliptic.P384()
	}
	return elliptic.P521()
}

func c13Int(name string, maxLen int) *big.Int {
	z := new(big.Int).SetBytes(vBytesC(name, 0, maxLen))
	if vBool(name + "_negative") {
		z.Neg(z)
	}
	return z
}


// entropy reader that fails (and keeps failing) from a chosen call on, with optional short reads
type c13Reader struct {
	failAt int
	calls  int
	failed bool
	short  bool
	given  int // bytes delivered so far
}

func (r *c13Reader) Read(p []byte) (int, error) {
	r.calls++
	if r.calls > r.failAt {
		r.failed = true
		return 0, errors.New("entropy source failed")
	}
	n := len(p)
	if r.short && n > 1 {
		n = n / 2
	}
	for i := 0; i < n; i++ {
		p[i] = byte(r.calls + i)
	}
	r.given += n
	return n, nil
}

