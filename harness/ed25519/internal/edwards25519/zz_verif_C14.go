package edwards25519

// C14 (scalar helpers, bit-vector level).

// l = 2^252 + 27742317777372353535851937790883648493, as four little-endian 64-bit words
var c14L = [4]uint64{0x5812631a5cf5d3ed, 0x14def9dea2f79cd6, 0x0000000000000000, 0x1000000000000000}

func c14Words(b *[32]byte) [4]uint64 {
	var w [4]uint64
	for i := 0; i < 4; i++ {
		for j := 7; j >= 0; j-- {
			w[i] = w[i]<<8 | uint64(b[8*i+j])
		}
	}
	return w
}

// value(b) < l, on 64-bit words from the most significant down
func c14Less(w, l [4]uint64) bool {
	if w[3] != l[3] {
		return w[3] < l[3]
	}
	if w[2] != l[2] {
		return w[2] < l[2]
	}
	if w[1] != l[1] {
		return w[1] < l[1]
	}
	return w[0] < l[0]
}

// isReduced(s) <=> s < l for every 32-byte string; SetCanonicalBytes accepts exactly those
func VerifC14_is_reduced() {
	vUnwind(40)
	b := vBytes("s", 32, 32)
	var s Scalar
	copy(s.s[:], b)
	want := c14Less(c14Words(&s.s), c14L)
	vAssert(isReduced(&s) == want, "isReduced-iff-below-group-order")
	out, err := NewScalar().SetCanonicalBytes(b)
	vAssert((err == nil) == want, "SetCanonicalBytes-accepts-exactly-canonical-scalars")
	if err == nil {
		vAssert(vBytesEq(out.Bytes(), b), "canonical-scalar-kept-verbatim")
		vReach("canonical")
	} else {
		vReach("non-canonical")
	}
}

// signedRadix16: digits in [-8, 8] (the top one in [0, 8]) and sum d_i 16^i = s, stated as a carry chain
func VerifC14_signed_radix16() {
	vUnwind(70)
	b := vBytes("s", 32, 32)
	vAssume(b[31] <= 127)
	var s Scalar
	copy(s.s[:], b)
	d := s.signedRadix16()
	carry := 0
	for i := 0; i < 64; i++ {
		u := int(b[i/2] & 15)
		if i%2 == 1 {
			u = int(b[i/2] >> 4)
		}
		di := int(d[i])
		vAssert(uint(di+8) <= 16, "digit-range") // -8 <= d_i <= 8 as one comparison (no branch)
		// u + carry = d_i + 16 * carry'
		t := u + carry - di
		vAssert(t&^16 == 0, "digits-sum-to-the-scalar") // t is 0 or 16
		carry = t >> 4
	}
	vAssert(carry == 0, "no-final-carry")
	vReach("radix16")
}

// C17 (point arithmetic): the scalar multiplications used by signing, verification and blinding
// are executed on concrete operands; every write to memory that existed before the call (package
// level tables, the operands) outside a sync.Once body is reported, natively two goroutines run
// the same calls under the race detector.
func VerifC17_edwards25519_point_ops() {
	vUnwind(400)
	vSteps(400000000) // concrete execution of the real field and point arithmetic
	var sb [32]byte
	for i := range sb {
		sb[i] = byte(3*i + 1)
	}
	sb[31] &= 15
	s, err := NewScalar().SetCanonicalBytes(sb[:])
	vAssume(err == nil)
	base := NewGeneratorPoint()
	// the precomputed tables are built on first use: either before the calls run concurrently, or
	// (cold) by the concurrent calls themselves, which is only safe under the package's sync.Once
	if !vBool("cold_tables") {
		_ = new(Point).ScalarBaseMult(s)
		_ = new(Point).VarTimeDoubleScalarBaseMult(s, base, s)
	}
	op := vSplit(vInt("op", 0, 2), 0, 2)
	vConcurrently(func() {
		switch op {
		case 0:
			_ = new(Point).ScalarMult(s, base)
		case 1:
			_ = new(Point).ScalarBaseMult(s)
		case 2:
			_ = new(Point).VarTimeDoubleScalarBaseMult(s, base, s)
		}
	})
	vSharedEnd()
	vReach("called")
}
