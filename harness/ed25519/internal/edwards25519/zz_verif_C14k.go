package edwards25519

// Experimental (not registered under C14): scReduce and scMulAdd against arithmetic mod l in the
// integer encoding. With byte loading and packing inside the query neither z3 5.1.0 (20 s) nor
// cvc5 (60 s) decides the congruence; the limb-level cut of DESIGN 3.6 is not built.

func VerifX14_sc_reduce() {
	in := vBytes("x", 64, 64)
	var s [64]byte
	copy(s[:], in)
	var out [32]byte
	vIntMode(true)
	scReduce(&out, &s)
	vIntMode(false)
	vAssertModL(out[:], "scReduce", s[:])
	vReach("reduced")
}

func VerifX14_sc_muladd() {
	a, b, c := vBytes("a", 32, 32), vBytes("b", 32, 32), vBytes("c", 32, 32)
	var aa, bb, cc, out [32]byte
	copy(aa[:], a)
	copy(bb[:], b)
	copy(cc[:], c)
	vIntMode(true)
	scMulAdd(&out, &aa, &bb, &cc)
	vIntMode(false)
	vAssertModL(out[:], "scMulAdd", aa[:], bb[:], cc[:])
	vReach("muladd")
}
