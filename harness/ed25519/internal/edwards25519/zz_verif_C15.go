package edwards25519

import "math/big"

// C15 (big-integer inversion of the fork): (*Scalar).ModInverse is executed from its source over
// a math/big model in which ModInverse modulo l is an uninterpreted involution: the receiver ends
// up holding exactly the 32-byte little-endian encoding of the inverse of its little-endian value,
// and inverting twice gives the scalar back. Natively this is the real arithmetic.
func VerifC15_mod_inverse_glue() {
	vUnwind(70)
	vUseModels("edinv")
	var s Scalar
	small := vBool("small_value")
	if small {
		// values below 2^64: their inverses are large, and the inverses of those are small again
		z := vBytesC("z", 1, 8)
		vAssume(z[len(z)-1] != 0)
		copy(s.s[:], z)
	} else {
		in := vBytes("s", 32, 32)
		vAssume(in[31]&0xf0 == 0 && in[0] != 0) // below 2^252 (hence below l), non-zero
		copy(s.s[:], in)
	}
	orig := s.s
	// the inverse, by the same library calls but without the code under test
	x := new(big.Int).SetBytes(toLE(orig[:]))
	l := new(big.Int).SetBytes([]byte{0x10, 0, 0, 0, 0, 0, 0, 0, 0, 0, 0, 0, 0, 0, 0, 0, 0x14, 0xde, 0xf9, 0xde, 0xa2, 0xf7, 0x9c, 0xd6, 0x58, 0x12, 0x63, 0x1a, 0x5c, 0xf5, 0xd3, 0xed})
	zi := new(big.Int).ModInverse(x, l)
	vAssume(zi != nil)
	want := make([]byte, 32)
	zi.FillBytes(want)
	want = toLE(want)

	s.ModInverse()
	vAssert(vBytesEq(s.s[:], want), "receiver-holds-little-endian-inverse")
	s.ModInverse()
	vAssert(vBytesEq(s.s[:], orig[:]), "inverse-of-inverse-is-the-scalar")
	vReach("inverted")
}
