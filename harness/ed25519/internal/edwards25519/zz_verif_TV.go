package edwards25519

func VerifTV_scalar() {
	b := vBytes("b", 32, 32)
	var s Scalar
	copy(s.s[:], b)
	vObserve("isReduced", isReduced(&s))
	_, err := NewScalar().SetCanonicalBytes(b)
	vObserve("canonical", err)
	if b[31] <= 127 {
		d := s.signedRadix16()
		out := make([]byte, 64)
		for i := range d {
			out[i] = byte(d[i])
		}
		vObserve("radix16", out)
	}
}
