package ed25519

import (
	"crypto"
	stded "crypto/ed25519"
	"errors"
	"github.com/cloudflare/pat-go/ed25519/internal/edwards25519"
)

// C14 (glue equivalence): this package's key derivation, signing, verification and key generation
// against the Go standard library's crypto/ed25519, both executed from their source over the same
// abstract scalar / point kernels and the same ideal SHA-512. Natively both are the real code.

func VerifC14_glue_keygen_and_sign() {
	vUnwind(140)
	vUseModels("edabs")
	seed := vBytes("seed", 32, 32)
	msg := vBytesC("msg", 0, vBound("C14_msg_len", 2, 64))
	priv := NewKeyFromSeed(seed)
	spriv := stded.NewKeyFromSeed(seed)
	vAssert(vBytesEq(priv, spriv), "private-key-bytes-equal-stdlib")
	vAssert(vBytesEq(priv[32:], spriv[32:]), "public-key-bytes-equal-stdlib")
	sig := Sign(priv, msg)
	ssig := stded.Sign(spriv, msg)
	vAssert(vBytesEq(sig, ssig), "signature-bytes-equal-stdlib")
	// the crypto.Signer entry point as well
	sig2, err := priv.Sign(nil, msg, crypto.Hash(0))
	vAssert(err == nil, "signer-interface-signs")
	if err == nil {
		vAssert(vBytesEq(sig2, ssig), "signer-interface-bytes-equal-stdlib")
	}
	vReach("sign")
}

func VerifC14_glue_verify() {
	vUnwind(140)
	vUseModels("edabs")
	pk := vBytes("pk", 32, 32)
	msg := vBytesC("msg", 0, vBound("C14_msg_len_v", 1, 6))
	sig := vBytesC("sig", 63, 65)
	got := Verify(pk, msg, sig)
	want := stded.Verify(pk, msg, sig)
	vAssert(got == want, "verdict-equals-stdlib")
	if got {
		vReach("accepted")
	} else {
		vReach("rejected")
	}
}

// an honest signature verifies, with this package's verifier and the standard library's
func VerifC14_sign_then_verify() {
	vUnwind(140)
	vUseModels("edabs")
	priv := NewKeyFromSeed(vBytes("seed", 32, 32))
	msg := vBytesC("msg", 0, vBound("C14_stv_msg_len", 2, 8))
	sig := Sign(priv, msg)
	pk := []byte(priv[32:])
	vAssert(Verify(pk, msg, sig), "own-signature-verifies")
	vAssert(stded.Verify(pk, msg, sig), "own-signature-verifies-with-standard-verifier")
	vAssert(Verify(pk, msg, stded.Sign(stded.PrivateKey(priv), msg)), "standard-signature-verifies-here")
	vReach("verified")
}

// keys of small order in canonical and non-canonical encodings (the identity and the point of
// order two), with S = 0 and R one of their encodings: the verdict is then decided by the parity
// of the challenge, a different one for each of five messages, so that a verifier which hashes
// another encoding of the key than the standard one does is caught on some message natively too
func VerifC14_glue_verify_small_order() {
	vUnwind(140)
	vUseModels("edabs")
	mk := func(first, rest, last byte) []byte {
		b := make([]byte, 32)
		for i := range b {
			b[i] = rest
		}
		b[0], b[31] = first, last
		return b
	}
	encs := [][]byte{
		mk(1, 0, 0), mk(1, 0, 0x80), mk(0xee, 0xff, 0x7f), mk(0xee, 0xff, 0xff), // the identity
		mk(0xec, 0xff, 0x7f), mk(0xec, 0xff, 0xff), // (0, -1)
	}
	pk := encs[vSplit(vInt("key", 0, 5), 0, 5)]
	sig := make([]byte, 64)
	if vBool("large_s") {
		// S in [2^252, l), the top of the canonical range, and R = [S]B: a valid signature under
		// every encoding of the identity; a verifier that is stricter than l on S rejects it
		s := make([]byte, 32)
		copy(s, vBytes("s_low", 16, 16))
		vAssume(s[15] < 0x14)
		s[31] = 0x10
		sc, err := edwards25519.NewScalar().SetCanonicalBytes(s)
		vAssume(err == nil)
		copy(sig, (&edwards25519.Point{}).ScalarBaseMult(sc).Bytes())
		copy(sig[32:], s)
		pk = encs[vSplit(vInt("identity_encoding", 0, 3), 0, 3)]
	} else {
		copy(sig, encs[vSplit(vInt("r", 0, 5), 0, 5)])
	}
	base := vBytesC("msg", 0, 1)
	for i := 0; i < 5; i++ {
		msg := append(append([]byte{}, base...), byte(i))
		got := Verify(pk, msg, sig)
		want := stded.Verify(stded.PublicKey(pk), msg, sig)
		vAssert(got == want, "verdict-equals-stdlib-on-small-order-keys")
	}
	vReach("small-order")
}

type c14Reader struct {
	failAt, calls int
	short         bool
}

func (r *c14Reader) Read(p []byte) (int, error) {
	r.calls++
	if r.calls > r.failAt {
		return 0, errors.New("entropy source failed")
	}
	n := len(p)
	if r.short && n > 1 {
		n /= 2
	}
	for i := 0; i < n; i++ {
		p[i] = byte(7*r.calls + i)
	}
	return n, nil
}

// key generation consumes the entropy reader exactly as the standard library does
func VerifC14_glue_generate_key() {
	vUnwind(140)
	vUseModels("edabs")
	failAt := vSplit(vInt("fail_at", 0, 4), 0, 4)
	short := vBool("short_reads")
	r1, r2 := &c14Reader{failAt: failAt, short: short}, &c14Reader{failAt: failAt, short: short}
	pub, priv, err := GenerateKey(r1)
	spub, spriv, serr := stded.GenerateKey(r2)
	vAssert((err == nil) == (serr == nil), "same-error-outcome-as-stdlib")
	vAssert(r1.calls == r2.calls, "same-number-of-reads-as-stdlib")
	if err == nil && serr == nil {
		vAssert(vBytesEq(pub, spub), "public-key-equals-stdlib")
		vAssert(vBytesEq(priv, spriv), "private-key-equals-stdlib")
		vReach("generated")
	} else {
		vAssert(pub == nil && priv == nil, "no-key-on-entropy-failure")
		vReach("entropy-failed")
	}
}
