package ed25519

import (
	stded "crypto/ed25519"
	"crypto/sha512"

	"github.com/cloudflare/pat-go/ed25519/internal/edwards25519"
)

// C15: Ed25519 key blinding. The scalar and point kernels are abstract (shared function symbols);
// the glue of ed25519.go and of the Scalar methods is executed from SSA.

// reference: pk * (SHA-512(blind || 0x00 || ctx)[0:32] mod l), without the code under test
func c15Reference(pk, blind, ctx []byte) ([]byte, bool) {
	msg := make([]byte, 0, len(blind)+1+len(ctx))
	msg = append(msg, blind...)
	msg = append(msg, 0x00)
	msg = append(msg, ctx...)
	h := sha512.Sum512(msg)
	// the 32 bytes as an integer mod l: zero-extended to the 64 bytes the wide reduction takes
	// (deliberately not through Scalar.SetBytes, which is part of what is being checked)
	var wide [64]byte
	copy(wide[:], h[:32])
	r := edwards25519.NewScalar().SetUniformBytes(wide[:])
	p, err := (&edwards25519.Point{}).SetBytes(pk)
	if err != nil {
		return nil, false
	}
	p.ScalarMult(r, p)
	return p.Bytes(), true
}

func c15Ctx(name string) []byte {
	// context lengths around 0 and around the SHA-512 block boundaries in the quick tier,
	// every length up to 130 in the thorough tier
	if vBound("C15_all_ctx_lengths", 0, 1) == 1 {
		return vBytesC(name, 0, 130)
	}
	switch vSplit(vInt(name+"_range", 0, 2), 0, 2) {
	case 0:
		return vBytesC(name, 0, 2)
	case 1:
		return vBytesC(name, 30, 33)
	}
	return vBytesC(name, 94, 97)
}

func VerifC15_blind_factor() {
	vUnwind(140)
	vUseModels("edabs")
	priv := NewKeyFromSeed(vBytes("seed", 32, 32))
	pk := []byte(priv[32:])
	blind := vBytes("blind", 32, 32)
	ctx := c15Ctx("ctx")
	got, err := BlindPublicKeyWithContext(pk, blind, ctx)
	vAssert(err == nil, "blinds")
	want, ok := c15Reference(pk, blind, ctx)
	vAssume(ok)
	vAssert(vBytesEq(got, want), "blinded-key-is-pk-times-reduced-hash-of-blind-0-context")
	// the same for three neighbouring blinds: whatever the formula depends on in the hash value
	// (its top bit, say) then takes both values natively as well
	for i := 1; i <= 3; i++ {
		b2 := append([]byte{}, blind...)
		b2[0] ^= byte(i)
		if !vSymbolic() {
			// natively: walk to a neighbour whose hash has the wanted top bit (the solver covers
			// every blind anyway; a replay should not depend on the luck of four hash values)
			for t := 0; t < 256; t++ {
				b2[1] = blind[1] ^ byte(t)
				h := sha512.Sum512(append(append(append([]byte{}, b2...), 0x00), ctx...))
				if (h[31]&0x80 != 0) == (i%2 == 1) {
					break
				}
			}
		}
		g2, err := BlindPublicKeyWithContext(pk, b2, ctx)
		vAssert(err == nil, "blinds")
		w2, ok := c15Reference(pk, b2, ctx)
		vAssume(ok)
		vAssert(vBytesEq(g2, w2), "blinded-key-is-pk-times-reduced-hash-of-blind-0-context")
	}
	// unblinding with the same blind and context gives the key back
	back, err := UnblindPublicKeyWithContext(got, blind, ctx)
	vAssert(err == nil, "unblinds")
	vAssert(vBytesEq(back, pk), "unblind-inverts-blind")
	vReach("factor")
}

func VerifC15_blind_commutes() {
	vUnwind(140)
	vUseModels("edabs")
	priv := NewKeyFromSeed(vBytes("seed", 32, 32))
	pk := []byte(priv[32:])
	b1, b2 := vBytes("blind1", 32, 32), vBytes("blind2", 32, 32)
	c1, c2 := vBytesC("ctx1", 0, 2), vBytesC("ctx2", 0, 2)
	k1, err := BlindPublicKeyWithContext(pk, b1, c1)
	vAssume(err == nil)
	k12, err := BlindPublicKeyWithContext(k1, b2, c2)
	vAssume(err == nil)
	k2, err := BlindPublicKeyWithContext(pk, b2, c2)
	vAssume(err == nil)
	k21, err := BlindPublicKeyWithContext(k2, b1, c1)
	vAssume(err == nil)
	vAssert(vBytesEq(k12, k21), "two-blindings-commute")
	vReach("commute")
}

// signing with a blinded key is a pure function of its arguments and is made for the blinded public key
func VerifC15_blind_sign_deterministic() {
	vUnwind(140)
	vUseModels("edabs")
	priv := NewKeyFromSeed(vBytes("seed", 32, 32))
	blind := vBytes("blind", 32, 32)
	ctx := vBytesC("ctx", 0, 2)
	msg := vBytesC("msg", 0, 2)
	s1 := BlindKeySignWithContext(priv, msg, blind, ctx)
	s2 := BlindKeySignWithContext(append(PrivateKey{}, priv...), append([]byte{}, msg...), append([]byte{}, blind...), append([]byte{}, ctx...))
	vAssert(len(s1) == SignatureSize, "signature-size")
	vAssert(vBytesEq(s1, s2), "blind-signing-is-deterministic")
	vReach("deterministic")
}

// (blind, ctx) -> blind || 0x00 || ctx is injective in each argument (32-byte blinds)
func VerifC15_factor_input_injective() {
	vUnwind(40)
	m := vBound("C15_inj_len", 4, 8)
	b1, b2 := vBytes("b1", 32, 32), vBytes("b2", 32, 32)
	c1, c2 := vBytesC("c1", 0, m), vBytesC("c2", 0, m)
	in1 := append(append(append([]byte{}, b1...), 0x00), c1...)
	in2 := append(append(append([]byte{}, b2...), 0x00), c2...)
	vAssert(vBytesEq(in1, in2) == (vBytesEq(b1, b2) && vBytesEq(c1, c2)), "input-determines-blind-and-context")
	vReach("injective")
}

// C15 (signing side): a signature made with the blinded key verifies under the blinded public
// key, with this package's verifier and with the unmodified standard library one. Over the
// abstract kernels this is decided with the one algebraic fact that makes Ed25519 verify:
// [k](-[x]B) + [k x + r]B = [r]B, together with [x y]B = [y]([x]B) for the blinded secret scalar.
func VerifC15_blind_signature_verifies() {
	vUnwind(140)
	vUseModels("edabs")
	priv := NewKeyFromSeed(vBytes("seed", 32, 32))
	pk := []byte(priv[32:])
	blind := vBytes("blind", 32, 32)
	ctx := vBytesC("ctx", 0, vBound("C15_sig_ctx_len", 1, 4))
	msg := vBytesC("msg", 0, vBound("C15_sig_msg_len", 1, 4))
	bpk, err := BlindPublicKeyWithContext(pk, blind, ctx)
	vAssert(err == nil, "blinds")
	sig := BlindKeySignWithContext(priv, msg, blind, ctx)
	vAssert(len(sig) == SignatureSize, "signature-size")
	vAssert(Verify(bpk, msg, sig), "blinded-signature-verifies-under-blinded-key")
	vAssert(stded.Verify(stded.PublicKey(bpk), msg, sig), "blinded-signature-verifies-with-standard-verifier")
	if len(ctx) == 0 {
		sig0 := BlindKeySign(priv, msg, blind)
		bpk0, err := BlindPublicKey(pk, blind)
		vAssert(err == nil, "blinds-without-context")
		vAssert(vBytesEq(bpk0, bpk), "no-context-is-empty-context")
		vAssert(stded.Verify(stded.PublicKey(bpk0), msg, sig0), "context-free-signature-verifies-with-standard-verifier")
	}
	vReach("verified")
}

// C15 (blinding is a function of its arguments, also when used from several goroutines): the
// blinding operations keep no state between or across calls. Symbolically every write to memory
// that outlives the call is reported; natively the calls run concurrently under the race detector.
func VerifC15_blinding_is_reentrant() {
	vUnwind(140)
	vUseModels("edabs")
	priv := NewKeyFromSeed(vBytes("seed", 32, 32))
	pk := []byte(priv[32:])
	blind := vBytes("blind", 32, 32)
	ctx := vBytesC("ctx", 0, 1)
	msg := vBytesC("msg", 0, 1)
	op := vSplit(vInt("operation", 0, 2), 0, 2)
	vSharedBegin()
	vConcurrently(func() {
		switch op {
		case 0:
			_, _ = BlindPublicKeyWithContext(pk, blind, ctx)
		case 1:
			_, _ = UnblindPublicKeyWithContext(pk, blind, ctx)
		default:
			_ = BlindKeySignWithContext(priv, msg, blind, ctx)
		}
	})
	vSharedEnd()
	vReach("called")
}
