package ed25519

// C16 (ed25519): no exported operation writes to caller memory: argument slices, including the
// spare capacity behind them, are unchanged after the call, and results do not depend on what the
// spare capacity holds.

// whole backing store of b (length and spare capacity)
func c16Whole(b []byte) []byte { return b[:cap(b)] }

func c16Snapshot(b []byte) []byte { return append([]byte{}, c16Whole(b)...) }

// a buffer of exactly n meaningful bytes with 0..maxSpare bytes of spare capacity behind it (the
// amount of spare capacity is case-split so that all lengths on a path are concrete)
func c16Buf(name string, n, maxSpare int) []byte {
	return vBufC(name, n, maxSpare)
}

func VerifC16_ed25519_blind_ops() {
	vUnwind(140)
	vUseModels("edabs")
	priv := NewKeyFromSeed(vBytes("seed", 32, 32))
	sp := vBound("C16_spare", 2, 40)
	pkBuf := c16Buf("pk_spare", 32, 1)
	copy(pkBuf, priv[32:])
	blind := c16Buf("blind", 32, sp)
	ctx := c16Buf("ctx", vSplit(vInt("ctx_len", 0, 1), 0, 1), 1)
	msg := c16Buf("msg", 1, 1)
	s1, s2, s3, s4 := c16Snapshot(blind), c16Snapshot(ctx), c16Snapshot(pkBuf), c16Snapshot(msg)

	var out []byte
	switch vSplit(vInt("op", 0, 2), 0, 2) {
	case 0:
		o, err := BlindPublicKeyWithContext(pkBuf, blind, ctx)
		vAssume(err == nil)
		out = o
		vReach("blind-public-key")
	case 1:
		o, err := UnblindPublicKeyWithContext(pkBuf, blind, ctx)
		vAssume(err == nil)
		out = o
		vReach("unblind-public-key")
	case 2:
		out = BlindKeySignWithContext(priv, msg, blind, ctx)
		vReach("blind-key-sign")
	}
	vAssert(vBytesEq(c16Whole(blind), s1), "blind-and-its-spare-capacity-unchanged")
	vAssert(vBytesEq(c16Whole(ctx), s2), "context-and-its-spare-capacity-unchanged")
	vAssert(vBytesEq(c16Whole(pkBuf), s3), "public-key-and-its-spare-capacity-unchanged")
	vAssert(vBytesEq(c16Whole(msg), s4), "message-and-its-spare-capacity-unchanged")
	_ = out
}

func VerifC16_ed25519_sign_verify() {
	vUnwind(140)
	vUseModels("edabs")
	seed := c16Buf("seed", 32, 1)
	msg := c16Buf("msg", 1, 1)
	s1, s2 := c16Snapshot(seed), c16Snapshot(msg)
	priv := NewKeyFromSeed(seed)
	sig := Sign(priv, msg)
	privSnap := append([]byte{}, priv...)
	sigBuf := c16Buf("sig_spare", 64, 1)
	copy(sigBuf, sig)
	s3 := c16Snapshot(sigBuf)
	pk := []byte(priv[32:])
	_ = Verify(pk, msg, sigBuf)
	vAssert(vBytesEq(c16Whole(seed), s1), "seed-and-its-spare-capacity-unchanged")
	vAssert(vBytesEq(c16Whole(msg), s2), "message-and-its-spare-capacity-unchanged")
	vAssert(vBytesEq(c16Whole(sigBuf), s3), "signature-and-its-spare-capacity-unchanged")
	vAssert(vBytesEq(priv, privSnap), "private-key-unchanged-by-sign-and-verify")
	vReach("sign-verify")
}

// key derivation leaves the caller's seed buffer alone whatever spare capacity it has (enough for
// a whole private key to be appended in place, in particular)
func VerifC16_ed25519_new_key_keeps_seed_buffer() {
	vUnwind(140)
	vUseModels("edabs")
	seed := c16Buf("seed", 32, 64)
	s1 := c16Snapshot(seed)
	priv := NewKeyFromSeed(seed)
	vAssert(vBytesEq(c16Whole(seed), s1), "seed-and-its-spare-capacity-unchanged")
	vAssert(vBytesEq(priv[:32], seed), "private-key-starts-with-the-seed")
	// and the key does not share memory with the seed buffer
	seed[0] ^= 0xff
	vAssert(priv[0] == seed[0]^0xff, "private-key-does-not-alias-the-seed")
	vReach("derived")
}
