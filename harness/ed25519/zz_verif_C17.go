package ed25519

// C17 (ed25519 keys): signing, verification and blinding with one shared key.
func VerifC17_ed25519_keys() {
	vUnwind(140)
	vUseModels("edabs")
	priv := NewKeyFromSeed(vBytes("seed", 32, 32))
	pk := []byte(priv[32:])
	blind := vBytes("blind", 32, 32)
	sig := Sign(priv, []byte("m"))
	op := vSplit(vInt("op", 0, 4), 0, 4)
	vConcurrently(func() {
		switch op {
		case 0:
			_ = Sign(priv, []byte("msg"))
		case 1:
			_ = Verify(pk, []byte("m"), sig)
		case 2:
			_, _ = BlindPublicKeyWithContext(pk, blind, []byte("c"))
		case 3:
			_, _ = UnblindPublicKeyWithContext(pk, blind, []byte("c"))
		case 4:
			_ = BlindKeySignWithContext(priv, []byte("msg"), blind, []byte("c"))
		}
	})
	vSharedEnd()
	vReach("called")
}
