package quicwire

// C19: QUIC varints and length-prefixed byte strings are exact and bounds-safe.
// Oracle: RFC 9000 section 16, written out independently below.

// specVarintLen is the encoded length required by RFC 9000 for v (0 if not representable).
func specVarintLen(v uint64) int {
	if v < 1<<6 {
		return 1
	}
	if v < 1<<14 {
		return 2
	}
	if v < 1<<30 {
		return 4
	}
	if v < 1<<62 {
		return 8
	}
	return 0
}

// specVarintByte is byte i of the n-byte encoding of v.
func specVarintByte(v uint64, n, i int) byte {
	shift := uint(8 * (n - 1 - i))
	b := byte(v >> shift)
	if i == 0 {
		var tag byte
		switch n {
		case 2:
			tag = 0x40
		case 4:
			tag = 0x80
		case 8:
			tag = 0xc0
		}
		b |= tag
	}
	return b
}

// specDecode is the reference decoder: value and length, or length -1.
func specDecode(b []byte) (uint64, int) {
	if len(b) == 0 {
		return 0, -1
	}
	n := 1 << (b[0] >> 6)
	if len(b) < n {
		return 0, -1
	}
	v := uint64(b[0] & 0x3f)
	for i := 1; i < n; i++ {
		v = v<<8 | uint64(b[i])
	}
	return v, n
}

// (a) encoder: shortest form, prefix and spare capacity semantics, size function, decoder inverse.
func VerifC19_varint_roundtrip() {
	vUnwind(12)
	v := vU64("v")
	vAssume(v <= MaxVarint)
	prefix := vBuf("prefix", 0, 4, 10)
	tail := vBytes("tail", 0, 3)
	plen := len(prefix)
	var saved [4]byte
	copy(saved[:], prefix)

	out := AppendVarint(prefix, v)
	n := specVarintLen(v)
	vAssert(SizeVarint(v) == n, "size-is-shortest")
	vAssert(len(out) == plen+n, "appended-length-is-shortest")
	for i := 0; i < plen; i++ {
		vAssert(out[i] == saved[i], "prefix-untouched")
	}
	for i := 0; i < n; i++ {
		vAssert(out[plen+i] == specVarintByte(v, n, i), "encoding-bytes")
	}
	// decode the encoding followed by arbitrary trailing bytes
	enc := append(append([]byte{}, out[plen:]...), tail...)
	got, gn := ConsumeVarint(enc)
	vAssert(gn == n, "decode-length")
	vAssert(got == v, "decode-value")
	gi, gin := ConsumeVarintInt64(enc)
	vAssert(gin == n && gi == int64(v), "decode-int64")
	vReach("roundtrip")
}

// (b) decoder on arbitrary bytes: announced length, failure iff short, value formula.
func VerifC19_varint_decode_any() {
	vUnwind(12)
	b := vBytes("b", 0, 9)
	v, n := ConsumeVarint(b)
	sv, sn := specDecode(b)
	vAssert(n == sn, "length-or-failure")
	if sn >= 0 {
		vAssert(v == sv, "value")
		vReach("accepted")
		// only the announced bytes matter: changing any later byte does not change the result
		if len(b) > sn {
			b2 := append([]byte{}, b...)
			b2[sn] ^= vByte("flip") | 1
			v2, n2 := ConsumeVarint(b2)
			vAssert(v2 == v && n2 == n, "reads-only-announced-bytes")
		}
	} else {
		vAssert(v == 0, "failure-value-zero")
		vReach("rejected")
	}
}

// (c) length-prefixed strings on arbitrary input, all declared lengths.
func VerifC19_lenprefixed_varint_any() {
	vUnwind(14)
	b := vBytes("b", 0, 12)
	out, n := ConsumeVarintBytes(b)
	size, k := specDecode(b)
	if k < 0 || size > uint64(len(b)-k) {
		vAssert(n == -1 && out == nil, "reject-iff-declared-exceeds-remaining")
		vReach("rejected")
		return
	}
	vAssert(n == k+int(size), "consumed")
	vAssert(len(out) == int(size), "payload-length")
	vAssert(vBytesEq(out, b[k:k+int(size)]), "payload-bytes")
	vReach("accepted")
}

func VerifC19_lenprefixed_u8_any() {
	vUnwind(14)
	b := vBytes("b", 0, 12)
	out, n := ConsumeUint8Bytes(b)
	if len(b) == 0 || int(b[0]) > len(b)-1 {
		vAssert(n == -1 && out == nil, "reject-iff-declared-exceeds-remaining")
		vReach("rejected")
		return
	}
	vAssert(n == 1+int(b[0]), "consumed")
	vAssert(vBytesEq(out, b[1:1+int(b[0])]), "payload-bytes")
	vReach("accepted")
}

// round trips of the length-prefixed encoders for every payload length up to the bound
func VerifC19_lenprefixed_roundtrip() {
	vUnwind(4)
	max := vBound("C19_payload", 70, 16400)
	payload := vBytes("payload", 0, max)
	prefix := vBuf("prefix", 0, 3, 8)
	tail := vBytes("tail", 0, 2)
	plen := len(prefix)

	enc := AppendVarintBytes(prefix, payload)
	n := specVarintLen(uint64(len(payload)))
	vAssert(len(enc) == plen+n+len(payload), "varint-bytes-length")
	msg := append(append([]byte{}, enc[plen:]...), tail...)
	got, used := ConsumeVarintBytes(msg)
	vAssert(used == n+len(payload), "varint-bytes-consumed")
	vAssert(vBytesEq(got, payload), "varint-bytes-roundtrip")
	vReach("varint-bytes")

	if len(payload) <= 255 {
		enc8 := AppendUint8Bytes(prefix[:plen:plen], payload)
		vAssert(len(enc8) == plen+1+len(payload), "u8-bytes-length")
		msg8 := append(append([]byte{}, enc8[plen:]...), tail...)
		got8, used8 := ConsumeUint8Bytes(msg8)
		vAssert(used8 == 1+len(payload), "u8-bytes-consumed")
		vAssert(vBytesEq(got8, payload), "u8-bytes-roundtrip")
		vReach("u8-bytes")
	}
}

func VerifC19_fixed_ints() {
	b := vBytes("b", 0, 10)
	v32, n32 := ConsumeUint32(b)
	if len(b) < 4 {
		vAssert(n32 == -1 && v32 == 0, "u32-short")
	} else {
		want := uint32(b[0])<<24 | uint32(b[1])<<16 | uint32(b[2])<<8 | uint32(b[3])
		vAssert(n32 == 4 && v32 == want, "u32-value")
		vReach("u32")
	}
	v64, n64 := ConsumeUint64(b)
	if len(b) < 8 {
		vAssert(n64 == -1 && v64 == 0, "u64-short")
	} else {
		var want uint64
		for i := 0; i < 8; i++ {
			want = want<<8 | uint64(b[i])
		}
		vAssert(n64 == 8 && v64 == want, "u64-value")
		vReach("u64")
	}
}

// the one-byte-length-prefixed helpers for every payload length they are documented to carry
// (0..255), with the boundary at 127/128 inside the quick tier's range
func VerifC19_u8_roundtrip_all_lengths() {
	vUnwind(4)
	payload := vBytes("payload", 0, 255)
	prefix := vBuf("prefix", 0, 2, 4)
	plen := len(prefix)
	enc := AppendUint8Bytes(prefix, payload)
	vAssert(len(enc) == plen+1+len(payload), "u8-bytes-length")
	vAssert(int(enc[plen]) == len(payload), "u8-length-byte")
	got, used := ConsumeUint8Bytes(enc[plen:])
	vAssert(used == 1+len(payload), "u8-bytes-consumed")
	vAssert(vBytesEq(got, payload), "u8-bytes-roundtrip")
	vReach("u8-bytes")
}
