package quicwire

// translator validation: concrete inputs through the engine and through the native build
func VerifTV_quicwire() {
	b := vBytes("b", 0, 16)
	v := vU64("v") & MaxVarint
	x, n := ConsumeVarint(b)
	vObserve("ConsumeVarint", x, n)
	p, m := ConsumeVarintBytes(b)
	vObserve("ConsumeVarintBytes", p, m)
	q, k := ConsumeUint8Bytes(b)
	vObserve("ConsumeUint8Bytes", q, k)
	vObserve("AppendVarint", AppendVarint([]byte{0xaa}, v), SizeVarint(v))
	vObserve("AppendVarintBytes", AppendVarintBytes(nil, b), AppendUint8Bytes(nil, b))
	y, j := ConsumeUint32(b)
	z, l := ConsumeUint64(b)
	vObserve("fixed", uint64(y), j, z, l)
}
