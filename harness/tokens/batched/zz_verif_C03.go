package batched

func VerifC03_batched_request() {
	n := vBound("C03_batched_req_len", 600, 1100)
	vUnwind(n/51 + 3)
	b := vBytes("b", 0, n)
	r := &BatchedTokenRequest{}
	vAllocBegin(64*len(b) + 4096)
	ok := r.Unmarshal(b)
	if ok {
		_ = r.Marshal()
		vReach("accepted")
	} else {
		vReach("rejected")
	}
	vAllocEnd()
}

func VerifC03_batched_responses() {
	// the loop runs once per response entry; executions with more than K entries are outside
	// the claim (bounded model checking without unwinding assertion for this loop)
	n := vBound("C03_batched_resp_len", 420, 900)
	vUnwindAssume(vBound("C03_batched_resp_entries", 4, 6))
	b := vBytes("b", 0, n)
	vAllocBegin(64*len(b) + 4096)
	_, err := UnmarshalBatchedTokenResponses(b)
	vAllocEnd()
	if err == nil {
		vReach("accepted")
	} else {
		vReach("rejected")
	}
}
