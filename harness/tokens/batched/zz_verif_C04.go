package batched

import (
	"github.com/cloudflare/pat-go/tokens"
	"github.com/cloudflare/pat-go/tokens/type1"
	"github.com/cloudflare/pat-go/tokens/type2"
)

func VerifC04_batched_request_rt() {
	vUnwind(10)
	n := vSplit(vInt("n", 1, vBound("C04_batch", 3, 5)), 1, 5)
	reqs, isT1, elems, ids := vBatch(n)
	br := BatchedTokenRequest{token_requests: reqs}
	enc := br.Marshal()
	d := &BatchedTokenRequest{}
	vAssert(d.Unmarshal(enc), "decode-accepts-encoding")
	vAssert(len(d.token_requests) == n, "rt-count")
	for i := 0; i < n && i < len(d.token_requests); i++ {
		r := d.token_requests[i]
		if isT1[i] {
			vAssert(r.Type() == 1, "rt-type")
			c, ok := r.(*type1.BasicPrivateTokenRequest)
			vAssert(ok, "rt-dynamic-type")
			if ok {
				vAssert(c.TokenKeyID == ids[i], "rt-key-id")
				vAssert(vBytesEq(c.BlindedReq, elems[i]), "rt-element")
			}
		} else {
			vAssert(r.Type() == 2, "rt-type")
			c, ok := r.(*type2.BasicPublicTokenRequest)
			vAssert(ok, "rt-dynamic-type")
			if ok {
				vAssert(c.TokenKeyID == ids[i], "rt-key-id")
				vAssert(vBytesEq(c.BlindedReq, elems[i]), "rt-element")
			}
		}
	}
	vReach("roundtrip")
}

func VerifC04_batched_request_canon() {
	n := vBound("C04_batched_req_len", 330, 600)
	vUnwindAssume(vBound("C04_batched_req_entries", 3, 4))
	b := vBytes("b", 0, n)
	r := &BatchedTokenRequest{}
	if vBool("reused") {
		// the decode target is a request the client API created earlier (and marshalled): whatever
		// it carries, including any cached encoding, must not survive the decoding
		prev, err := NewBasicClient().CreateTokenRequest([]tokens.TokenRequestWithDetails{&type1.BasicPrivateTokenRequest{TokenKeyID: vByte("prev_id"), BlindedReq: vBytes("prev_blinded", type1.Ne, type1.Ne)}})
		vAssume(err == nil)
		_ = prev.Marshal()
		r = prev
	}
	if !r.Unmarshal(b) {
		vReach("rejected")
		return
	}
	fresh := BatchedTokenRequest{token_requests: r.token_requests}
	enc := fresh.Marshal()
	vAssert(len(enc) <= len(b), "canonical-no-longer")
	// the decoded object itself re-encodes to that canonical form (not to whatever it was decoded
	// from: a non-minimal length prefix is accepted but must not come back out), and keeps doing so
	// when the caller reuses the input buffer
	vAssert(vBytesEq(r.Marshal(), enc), "decoded-object-re-encodes-canonically")
	if len(b) > 0 {
		b[len(b)-1] ^= 0x5a
		b[0] ^= 0x01
		vAssert(vBytesEq(r.Marshal(), enc), "re-encoding-independent-of-input-buffer")
	}
	r2 := &BatchedTokenRequest{}
	vAssert(r2.Unmarshal(enc), "canonical-decodes")
	vAssert(len(r2.token_requests) == len(r.token_requests), "same-count")
	for i := 0; i < len(r.token_requests) && i < len(r2.token_requests); i++ {
		vAssert(r2.token_requests[i].Type() == r.token_requests[i].Type(), "same-type")
		vAssert(r2.token_requests[i].TruncatedTokenKeyID() == r.token_requests[i].TruncatedTokenKeyID(), "same-key-id")
		vAssert(vBytesEq(r2.token_requests[i].Marshal(), r.token_requests[i].Marshal()), "same-request")
	}
	vReach("accepted")
}

// the generic batch decoder rejects requests of types it does not carry
func VerifC04_batched_request_typesep() {
	vUnwindAssume(2)
	b := vBytes("b", 4, 330)
	// first inner request has a type other than 1 or 2, and the declared list is not empty
	l, off := specVarint(b)
	vAssume(off > 0 && l > 0 && off+2 <= len(b))
	vAssume(!(b[off] == 0 && (b[off+1] == 1 || b[off+1] == 2)))
	r := &BatchedTokenRequest{}
	vAssert(!r.Unmarshal(b), "foreign-inner-type-rejected")
	vReach("checked")
}

func specVarint(b []byte) (uint64, int) {
	if len(b) == 0 {
		return 0, -1
	}
	n := 1 << (b[0] >> 6)
	if len(b) < n {
		return 0, -1
	}
	v := uint64(b[0] & 0x3f)
	for i := 1; i < n; i++ {
		v = v<<8 | uint64(b[i])
	}
	return v, n
}

// response list: encode-then-decode of a well-formed list keeps count, order and content
func VerifC04_batched_responses_canon() {
	n := vBound("C04_batched_resp_len", 320, 600)
	vUnwindAssume(vBound("C04_batched_resp_entries", 3, 4))
	b := vBytes("b", 0, n)
	rs, err := UnmarshalBatchedTokenResponses(b)
	if err != nil {
		vReach("rejected")
		return
	}
	for i := range rs {
		k := len(rs[i])
		vAssert(k == 0 || k == type1.Ne+2*type1.Nk || k == type2.Nk, "entry-length-is-one-of-the-response-sizes")
	}
	vReach("accepted")
}
