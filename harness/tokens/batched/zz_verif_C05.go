package batched

import (
	"crypto/rand"
	"errors"

	"github.com/cloudflare/circl/oprf"
	"github.com/cloudflare/pat-go/tokens"
	"github.com/cloudflare/pat-go/tokens/type1"
	"github.com/cloudflare/pat-go/tokens/type2"
)

// C05: the generic batch issuer keeps order and count and isolates failures.

// model issuer: fixed type, key id, outcome and response
type c05Issuer struct {
	typ   uint16
	keyID []byte
	ok    bool
	resp  []byte
}

func (i c05Issuer) Evaluate(req tokens.TokenRequest) ([]byte, error) {
	if !i.ok {
		return nil, errors.New("evaluation failed")
	}
	return i.resp, nil
}
func (i c05Issuer) TokenKeyID() []byte { return i.keyID }
func (i c05Issuer) Type() uint16       { return i.typ }

func c05RespLen(typ uint16) int {
	if typ == 1 {
		return type1.Ne + 2*type1.Nk
	}
	return type2.Nk
}

func VerifC05_batch_isolation() {
	vUnwind(12)
	// configuration: up to 2 issuers per type, arbitrary truncated key ids and outcomes
	var cfg []c05Issuer
	var args []Issuer
	for t := uint16(1); t <= 2; t++ {
		k := vSplit(vInt("issuers", 0, 2), 0, 2)
		for j := 0; j < k; j++ {
			id := vBytes("keyid", 32, 32)
			is := c05Issuer{typ: t, keyID: id, ok: vBool("ok"), resp: vBytes("resp", c05RespLen(t), c05RespLen(t))}
			cfg = append(cfg, is)
			args = append(args, is)
		}
	}
	issuer := NewBasicBatchedIssuer(args...)
	n := vSplit(vInt("n", 1, vBound("C05_batch", 2, 3)), 1, 3)
	reqs, isT1, _, ids := vBatch(n)
	br, err := NewBasicClient().CreateTokenRequest(reqs)
	vAssert(err == nil, "client-builds-batch")
	if err != nil {
		return
	}
	out, err := issuer.EvaluateBatch(br)
	vAssert(err == nil, "evaluate-batch")
	if err != nil {
		return
	}
	resps, err := UnmarshalBatchedTokenResponses(out)
	vAssert(err == nil, "response-list-decodes")
	if err != nil {
		return
	}
	vAssert(len(resps) == n, "one-entry-per-request")
	for i := 0; i < n && i < len(resps); i++ {
		typ := uint16(2)
		if isT1[i] {
			typ = 1
		}
		// first configured issuer of this type and truncated key id that evaluates successfully
		var want []byte
		found := false
		for _, c := range cfg {
			if !found && c.typ == typ && c.keyID[31] == ids[i] && c.ok {
				want = c.resp
				found = true
			}
		}
		if found {
			vAssert(len(resps[i]) > 0, "present-when-an-issuer-succeeds")
			// the response of a matching issuer that succeeded (which one, if several share the
			// truncated id, is not prescribed by the property)
			isOne := false
			for _, c := range cfg {
				if c.typ == typ && c.keyID[31] == ids[i] && c.ok && vBytesEq(resps[i], c.resp) {
					isOne = true
				}
			}
			_ = want
			vAssert(isOne, "entry-is-a-matching-issuers-response")
			vReach("present")
		} else {
			vAssert(len(resps[i]) == 0, "absent-otherwise")
			vReach("absent")
		}
	}
}

// end to end over the wire with real type-1 issuers: every present entry finalizes under its own
// request state; a request for an unknown key id is absent and does not disturb its neighbours.
// Two configured keys may share a truncated key id (the right key listed first).
func VerifC05_batch_e2e_type1() {
	vUnwind(12)
	keyA, err := oprf.GenerateKey(oprf.SuiteP384, rand.Reader)
	vAssume(err == nil)
	keyB, err := oprf.GenerateKey(oprf.SuiteP384, rand.Reader)
	vAssume(err == nil)
	issA, issB := type1.NewBasicPrivateIssuer(keyA), type1.NewBasicPrivateIssuer(keyB)
	// the two keys may share their truncated key id; natively a colliding key is searched for
	collide := vBool("collide")
	if vSymbolic() {
		vAssume((issA.TokenKeyID()[31] == issB.TokenKeyID()[31]) == collide)
	} else {
		for ctr := 0; (issA.TokenKeyID()[31] == issB.TokenKeyID()[31]) != collide; ctr++ {
			keyB, err = oprf.DeriveKey(oprf.SuiteP384, oprf.VerifiableMode, []byte{byte(ctr), byte(ctr >> 8), 7}, []byte("verif"))
			vAssume(err == nil)
			issB = type1.NewBasicPrivateIssuer(keyB)
		}
	}
	pkA, _ := issA.TokenKey().MarshalBinary()
	pkB, _ := issB.TokenKey().MarshalBinary()
	vAssume(!vBytesEq(pkA, pkB))
	issuer := NewBasicBatchedIssuer(c05T1{issA}, c05T1{issB})

	n := vSplit(vInt("n", 1, vBound("C05_e2e_batch", 2, 3)), 1, 3)
	states := make([]type1.BasicPrivateTokenRequestState, n)
	known := make([]bool, n)
	malformed := make([]bool, n)
	reqs := make([]tokens.TokenRequestWithDetails, n)
	for i := 0; i < n; i++ {
		keyID := issA.TokenKeyID()
		known[i] = vBool("known")
		if !known[i] {
			// a key id that no configured issuer has
			keyID = vBytes("foreign_keyid", 32, 32)
			vAssume(keyID[31] != issA.TokenKeyID()[31] && keyID[31] != issB.TokenKeyID()[31])
		}
		st, err := type1.NewBasicPrivateClient().CreateTokenRequest(vBytesC("challenge", 0, 1), vBytes("nonce", 32, 32), keyID, issA.TokenKey())
		vAssume(err == nil)
		states[i] = st
		reqs[i] = st.Request()
		if known[i] && vBool("malformed_element") {
			// a request that is well formed on the wire but carries bytes that are no group element
			// (0x05 is not a point-compression prefix): its own entry may fail, the batch may not
			bad := make([]byte, type1.Ne)
			bad[0] = 0x05
			copy(bad[1:], vBytes("garbage", type1.Ne-1, type1.Ne-1))
			reqs[i] = &type1.BasicPrivateTokenRequest{TokenKeyID: st.Request().TokenKeyID, BlindedReq: bad}
			malformed[i] = true
		}
	}
	br, err := NewBasicClient().CreateTokenRequest(reqs)
	vAssume(err == nil)
	wire := append([]byte{}, br.Marshal()...)
	dec := &BatchedTokenRequest{}
	label := "issuer-decodes-batch"
	for i := range malformed {
		if malformed[i] {
			label = "issuer-decodes-batch-with-a-malformed-element"
		}
	}
	vAssert(dec.Unmarshal(wire), label)
	out, err := issuer.EvaluateBatch(dec)
	vAssert(err == nil, "evaluate-batch")
	if err != nil {
		return
	}
	resps, err := UnmarshalBatchedTokenResponses(append([]byte{}, out...))
	vAssert(err == nil, "response-list-decodes")
	if err != nil {
		return
	}
	vAssert(len(resps) == n, "one-entry-per-request")
	for i := 0; i < n && i < len(resps); i++ {
		if malformed[i] {
			// present or absent is the inner issuer's business; the others are judged below
			vReach("malformed")
		} else if known[i] {
			vAssert(len(resps[i]) > 0, "present-for-known-key")
			tok, err := states[i].FinalizeToken(resps[i])
			vAssert(err == nil, "entry-finalizes-under-its-own-state")
			if err == nil {
				vAssert(issA.Verify(tok) == nil, "token-verifies")
			}
			vReach("present")
		} else {
			vAssert(len(resps[i]) == 0, "absent-for-unknown-key")
			vReach("absent")
		}
	}
}
