package batched

import (
	"crypto/rand"

	"github.com/cloudflare/circl/oprf"
	"github.com/cloudflare/pat-go/tokens"
	"github.com/cloudflare/pat-go/tokens/type1"
)

// C17 (generic batch issuer): shared between goroutines, each call with its own request.
func VerifC17_batched_issuer() {
	vUnwind(12)
	vUseModels("c17")
	key, err := oprf.GenerateKey(oprf.SuiteP384, rand.Reader)
	vAssume(err == nil)
	inner := type1.NewBasicPrivateIssuer(key)
	issuer := NewBasicBatchedIssuer(c05T1{inner})
	known := vBool("known_key")
	vConcurrently(func() {
		id := byte(0)
		if known {
			id = inner.TokenKeyID()[31]
		}
		req := &type1.BasicPrivateTokenRequest{TokenKeyID: id, BlindedReq: make([]byte, type1.Ne)}
		br := &BatchedTokenRequest{token_requests: []tokens.TokenRequestWithDetails{req, req}}
		_, _ = issuer.EvaluateBatch(br)
	})
	vSharedEnd()
	vReach("called")
}
