package batched

func VerifTV_batched() {
	b := vBytes("b", 0, 1500)
	r := &BatchedTokenRequest{}
	ok := r.Unmarshal(b)
	vObserve("ok", ok)
	if ok {
		vObserve("count", len(r.token_requests))
		for _, q := range r.token_requests {
			vObserve("req", uint64(q.Type()), uint64(q.TruncatedTokenKeyID()), q.Marshal())
		}
		vObserve("marshal", BatchedTokenRequest{token_requests: r.token_requests}.Marshal())
	}
	rs, err := UnmarshalBatchedTokenResponses(b)
	vObserve("resp-err", err)
	if err == nil {
		vObserve("resp", rs)
	}
}
