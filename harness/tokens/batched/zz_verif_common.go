package batched

import (
	"errors"

	"github.com/cloudflare/pat-go/tokens"
	"github.com/cloudflare/pat-go/tokens/type1"
	"github.com/cloudflare/pat-go/tokens/type2"
)

// a well-formed batch of n requests over {type 1, type 2}
func vBatch(n int) ([]tokens.TokenRequestWithDetails, []bool, [][]byte, []byte) {
	reqs := make([]tokens.TokenRequestWithDetails, n)
	isT1 := make([]bool, n)
	elems := make([][]byte, n)
	ids := make([]byte, n)
	for i := 0; i < n; i++ {
		ids[i] = vByte("id")
		if vBool("t1") {
			isT1[i] = true
			elems[i] = vBytes("e1", type1.Ne, type1.Ne)
			reqs[i] = &type1.BasicPrivateTokenRequest{TokenKeyID: ids[i], BlindedReq: elems[i]}
		} else {
			elems[i] = vBytes("e2", 256, 256)
			reqs[i] = &type2.BasicPublicTokenRequest{TokenKeyID: ids[i], BlindedReq: elems[i]}
		}
	}
	return reqs, isT1, elems, ids
}

// adapters over the real issuers (the repository ships them only in its tests)
type c05T1 struct{ i *type1.BasicPrivateIssuer }

func (a c05T1) Evaluate(req tokens.TokenRequest) ([]byte, error) {
	r, ok := req.(*type1.BasicPrivateTokenRequest)
	if !ok {
		return nil, errors.New("wrong request type")
	}
	return a.i.Evaluate(r)
}
func (a c05T1) TokenKeyID() []byte { return a.i.TokenKeyID() }
func (a c05T1) Type() uint16       { return a.i.Type() }

