package batched

import (
	"github.com/cloudflare/pat-go/tokens"
	"github.com/cloudflare/pat-go/tokens/type1"
	"github.com/cloudflare/pat-go/tokens/type2"
)

// a well-formed batch of n requests over {type 1, type 2}
func vBatch(n int) ([]tokens.TokenRequestWithDetails, []bool, [][]byte, []byte) {
	reqs := make([]tokens.TokenRequestWithDetails, n)
	isT1 := make([]bool, n)
	elems := make([][]byte, n)
	ids := make([]byte, n)
	for i := 0; i < n; i++ {
		ids[i] = vByte("id")
		if vBool("t1") {
			isT1[i] = true
			elems[i] = vBytes("e1", type1.Ne, type1.Ne)
			reqs[i] = &type1.BasicPrivateTokenRequest{TokenKeyID: ids[i], BlindedReq: elems[i]}
		} else {
			elems[i] = vBytes("e2", 256, 256)
			reqs[i] = &type2.BasicPublicTokenRequest{TokenKeyID: ids[i], BlindedReq: elems[i]}
		}
	}
	return reqs, isT1, elems, ids
}

