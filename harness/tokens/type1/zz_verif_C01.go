package type1

import (
	"crypto/rand"
	"crypto/sha256"

	"github.com/cloudflare/circl/oprf"
)

// C01 (type 1): honest issuance with every message crossing the wire as bytes.
func VerifC01_type1_honest() {
	vUnwind(8)
	key, err := oprf.GenerateKey(oprf.SuiteP384, rand.Reader)
	vAssume(err == nil)
	issuer := NewBasicPrivateIssuer(key)
	client := NewBasicPrivateClient()
	challenge := vBytesC("challenge", 0, vBound("C01_challenge", 40, 70))
	nonce := vBytes("nonce", 32, 32)
	keyID := issuer.TokenKeyID()

	st, err := client.CreateTokenRequest(challenge, nonce, keyID, issuer.TokenKey())
	vAssert(err == nil, "create-request")
	if err != nil {
		return
	}
	wire := append([]byte{}, st.Request().Marshal()...)
	req := &BasicPrivateTokenRequest{}
	ok := req.Unmarshal(wire)
	vAssert(ok, "issuer-decodes-request")
	if !ok {
		return
	}
	resp, err := issuer.Evaluate(req)
	vAssert(err == nil, "issuer-evaluates")
	if err != nil {
		return
	}
	respWire := append([]byte{}, resp...)
	tok, err := st.FinalizeToken(respWire)
	vAssert(err == nil, "client-finalizes")
	if err != nil {
		return
	}
	vAssert(issuer.Verify(tok) == nil, "token-verifies")
	enc := tok.Marshal()
	ctx := sha256.Sum256(challenge)
	vAssert(len(enc) == 2+32+32+32+48, "token-length")
	vAssert(enc[0] == 0x00, "token-type-hi")
	vAssert(enc[1] == 0x01, "token-type-lo")
	vAssert(vBytesEq(enc[2:34], nonce), "token-nonce")
	vAssert(vBytesEq(enc[34:66], ctx[:]), "token-context")
	vAssert(vBytesEq(enc[66:98], keyID), "token-key-id")
	vAssert(vBytesEq(enc[98:], tok.Authenticator), "token-authenticator")
	vAssert(len(tok.Authenticator) == 48, "authenticator-length")
	vReach("issued")
}
