package type1

import (
	"crypto/rand"

	"github.com/cloudflare/circl/oprf"
)

// C01 (type 1, two runs in flight): see the type-5 harness of the same name
func VerifC01_type1_two_outstanding_runs() {
	vUnwind(8)
	key, err := oprf.GenerateKey(oprf.SuiteP384, rand.Reader)
	vAssume(err == nil)
	issuer := NewBasicPrivateIssuer(key)
	mk := func(tag string) BasicPrivateTokenRequestState {
		st, err := NewBasicPrivateClient().CreateTokenRequest(vBytesC("challenge"+tag, 0, 1), vBytes("nonce"+tag, 32, 32), issuer.TokenKeyID(), issuer.TokenKey())
		vAssume(err == nil)
		return st
	}
	st1, st2 := mk("1"), mk("2")
	resp1, err := issuer.Evaluate(st1.Request())
	vAssert(err == nil, "first-evaluates")
	resp2, err2 := issuer.Evaluate(st2.Request())
	vAssert(err2 == nil, "second-evaluates")
	if err != nil || err2 != nil {
		return
	}
	tok1, err := st1.FinalizeToken(resp1)
	vAssert(err == nil, "first-run-finalizes-after-second-evaluation")
	tok2, err2 := st2.FinalizeToken(resp2)
	vAssert(err2 == nil, "second-run-finalizes")
	if err == nil {
		vAssert(issuer.Verify(tok1) == nil, "first-run-token-verifies")
	}
	if err2 == nil {
		vAssert(issuer.Verify(tok2) == nil, "second-run-token-verifies")
	}
	vReach("two-runs")
}
