package type1

import (
	"crypto/rand"
	"crypto/sha256"

	"github.com/cloudflare/circl/oprf"
)

func c02Setup() (*BasicPrivateIssuer, BasicPrivateTokenRequestState, []byte, []byte, []byte) {
	key, err := oprf.GenerateKey(oprf.SuiteP384, rand.Reader)
	vAssume(err == nil)
	issuer := NewBasicPrivateIssuer(key)
	challenge := vBytesC("challenge", 0, 2)
	nonce := vBytes("nonce", 32, 32)
	keyID := issuer.TokenKeyID()
	st, err := NewBasicPrivateClient().CreateTokenRequest(challenge, nonce, keyID, issuer.TokenKey())
	vAssume(err == nil)
	return issuer, st, challenge, nonce, keyID
}

// every perturbation of an honest response is rejected
func VerifC02_type1_client_rejects() {
	vUnwind(8)
	issuer, st, _, _, _ := c02Setup()
	resp, err := issuer.Evaluate(st.Request())
	vAssume(err == nil)
	var bad []byte
	switch vSplit(vInt("perturbation", 0, 2), 0, 2) {
	case 0: // single bit flip anywhere
		bad = append([]byte{}, resp...)
		i := vSplit(vInt("byte", 0, len(resp)-1), 0, len(resp)-1)
		bad[i] ^= 1 << uint(vInt("bit", 0, 7))
		vReach("bit-flip")
	case 1: // response computed under another issuer key
		key2, err := oprf.GenerateKey(oprf.SuiteP384, rand.Reader)
		vAssume(err == nil)
		pk1, _ := issuer.TokenKey().MarshalBinary()
		pk2, _ := key2.Public().MarshalBinary()
		vAssume(!vBytesEq(pk1, pk2))
		bad, err = NewBasicPrivateIssuer(key2).Evaluate(st.Request())
		vAssume(err == nil)
		vReach("other-key")
	case 2: // response to another outstanding request of the same client
		nonce2 := vBytes("nonce2", 32, 32)
		st2, err := NewBasicPrivateClient().CreateTokenRequest(vBytesC("challenge2", 0, 2), nonce2, issuer.TokenKeyID(), issuer.TokenKey())
		vAssume(err == nil)
		vAssume(!vBytesEq(st2.Request().BlindedReq, st.Request().BlindedReq))
		bad, err = issuer.Evaluate(st2.Request())
		vAssume(err == nil)
		vReach("other-request")
	}
	_, ferr := st.FinalizeToken(bad)
	vAssert(ferr != nil, "perturbed-response-rejected")
}

// whatever the response bytes: success implies a token that verifies and carries this request's fields
func VerifC02_type1_success_implies_valid() {
	vUnwind(8)
	issuer, st, challenge, nonce, keyID := c02Setup()
	var resp []byte
	if vBool("honest") {
		r, err := issuer.Evaluate(st.Request())
		vAssume(err == nil)
		resp = r
	} else {
		resp = vBytes("resp", 145, 145)
	}
	tok, err := st.FinalizeToken(resp)
	if err != nil {
		vReach("rejected")
		return
	}
	vAssert(issuer.Verify(tok) == nil, "returned-token-verifies")
	ctx := sha256.Sum256(challenge)
	vAssert(tok.TokenType == BasicPrivateTokenType, "own-type")
	vAssert(vBytesEq(tok.Nonce, nonce), "own-nonce")
	vAssert(vBytesEq(tok.Context, ctx[:]), "own-context")
	vAssert(vBytesEq(tok.KeyID, keyID), "own-key-id")
	vReach("accepted")
}

func VerifC02_type1_refinalize_after_token_overwritten() {
	vUnwind(8)
	issuer, st, challenge, nonce, keyID := c02Setup()
	resp, err := issuer.Evaluate(st.Request())
	vAssume(err == nil)
	tok, err := st.FinalizeToken(resp)
	vAssume(err == nil)
	copy(tok.Nonce, vBytes("g1", 32, 32))
	copy(tok.Context, vBytes("g2", 32, 32))
	copy(tok.KeyID, vBytes("g3", 32, 32))
	copy(tok.Authenticator, vBytes("g4", 48, 48))
	tok2, err := st.FinalizeToken(resp)
	if err != nil {
		vReach("rejected")
		return
	}
	ctx := sha256.Sum256(challenge)
	vAssert(issuer.Verify(tok2) == nil, "returned-token-verifies")
	vAssert(vBytesEq(tok2.Nonce, nonce), "own-nonce")
	vAssert(vBytesEq(tok2.Context, ctx[:]), "own-context")
	vAssert(vBytesEq(tok2.KeyID, keyID), "own-key-id")
	vReach("accepted")
}
