package type1

// C03 (type 1): decoders never panic, loop or over-allocate, for any input.

func VerifC03_type1_token() {
	vUnwind(6)
	b := vBytes("b", 0, vBound("C03_t1_token_len", 160, 300))
	vAllocBegin(64*len(b) + 4096)
	_, err := UnmarshalPrivateToken(b)
	vAllocEnd()
	if err == nil {
		vReach("accepted")
	} else {
		vReach("rejected")
	}
}

func VerifC03_type1_request() {
	vUnwind(6)
	b := vBytes("b", 0, vBound("C03_t1_req_len", 64, 300))
	r := &BasicPrivateTokenRequest{}
	vAllocBegin(64*len(b) + 4096)
	ok := r.Unmarshal(b)
	if ok {
		_ = r.Marshal()
		vReach("accepted")
	} else {
		vReach("rejected")
	}
	vAllocEnd()
}
