package type1

import (
	"crypto/rand"

	"github.com/cloudflare/circl/oprf"
)

// C03 (type 1 protocol steps): arbitrary response bytes into FinalizeToken, arbitrary decoded
// requests into Evaluate, arbitrary tokens into Verify.
func VerifC03_type1_finalize() {
	vUnwind(8)
	key, err := oprf.GenerateKey(oprf.SuiteP384, rand.Reader)
	vAssume(err == nil)
	issuer := NewBasicPrivateIssuer(key)
	st, err := NewBasicPrivateClient().CreateTokenRequest(vBytesC("challenge", 0, 1), vBytes("nonce", 32, 32), issuer.TokenKeyID(), issuer.TokenKey())
	vAssume(err == nil)
	resp := vBytes("resp", 0, vBound("C03_t1_resp_len", 160, 300))
	vAllocBegin(64*len(resp) + 8192)
	_, ferr := st.FinalizeToken(resp)
	vAllocEnd()
	if ferr == nil {
		vReach("accepted")
	} else {
		vReach("rejected")
	}
}

func VerifC03_type1_evaluate() {
	vUnwind(8)
	key, err := oprf.GenerateKey(oprf.SuiteP384, rand.Reader)
	vAssume(err == nil)
	issuer := NewBasicPrivateIssuer(key)
	b := vBytes("b", 0, 64)
	req := &BasicPrivateTokenRequest{}
	if !req.Unmarshal(b) {
		vReach("undecodable")
		return
	}
	vAllocBegin(64*len(b) + 8192)
	_, eerr := issuer.Evaluate(req)
	vAllocEnd()
	if eerr == nil {
		vReach("evaluated")
	} else {
		vReach("refused")
	}
}
