package type1

import (
	"crypto/rand"
	"crypto/sha256"

	"github.com/cloudflare/circl/oprf"
)

// C11 (type 1): with a caller-supplied blind, request creation is a pure function of its
// arguments, and the finalized token does not depend on the blind.
func VerifC11_type1_fixed_blind() {
	vUnwind(8)
	key, err := oprf.GenerateKey(oprf.SuiteP384, rand.Reader)
	vAssume(err == nil)
	issuer := NewBasicPrivateIssuer(key)
	challenge := vBytesC("challenge", 0, vBound("C11_challenge", 2, 40))
	nonce := vBytes("nonce", 32, 32)
	keyID := issuer.TokenKeyID()
	blindA := vBytes("blindA", 48, 48)
	blindB := vBytes("blindB", 48, 48)

	a1, err := NewBasicPrivateClient().CreateTokenRequestWithBlind(challenge, nonce, keyID, issuer.TokenKey(), blindA)
	if err != nil {
		vReach("blind-refused")
		return
	}
	a2, err := NewBasicPrivateClient().CreateTokenRequestWithBlind(append([]byte{}, challenge...), append([]byte{}, nonce...), append([]byte{}, keyID...), issuer.TokenKey(), append([]byte{}, blindA...))
	vAssert(err == nil, "second-run-same-outcome")
	if err != nil {
		return
	}
	vAssert(vBytesEq(a1.Request().Marshal(), a2.Request().Marshal()), "request-is-a-function-of-the-arguments")

	b1, err := NewBasicPrivateClient().CreateTokenRequestWithBlind(challenge, nonce, keyID, issuer.TokenKey(), blindB)
	if err != nil {
		vReach("second-blind-refused")
		return
	}
	ra, err := issuer.Evaluate(a1.Request())
	vAssume(err == nil)
	rb, err := issuer.Evaluate(b1.Request())
	vAssume(err == nil)
	ta, err := a1.FinalizeToken(ra)
	vAssert(err == nil, "finalize-a")
	tb, err2 := b1.FinalizeToken(rb)
	vAssert(err2 == nil, "finalize-b")
	if err == nil && err2 == nil {
		vAssert(vBytesEq(ta.Marshal(), tb.Marshal()), "token-independent-of-blind")
		vReach("two-blinds")
	}
}

// The caller may reuse its argument buffers as soon as request creation has returned: the
// finalized token still carries the nonce, digest and key id the request was created with.
func VerifC11_type1_arguments_not_retained() {
	vUnwind(8)
	key, err := oprf.GenerateKey(oprf.SuiteP384, rand.Reader)
	vAssume(err == nil)
	issuer := NewBasicPrivateIssuer(key)
	challenge := vBytesC("challenge", 1, 2)
	nonce := vBytes("nonce", 32, 32)
	keyID := issuer.TokenKeyID()
	blind := vBytes("blind", 48, 48)
	nonce0, keyID0, challenge0 := append([]byte{}, nonce...), append([]byte{}, keyID...), append([]byte{}, challenge...)
	var st BasicPrivateTokenRequestState
	if vBool("fixed_blind") {
		st, err = NewBasicPrivateClient().CreateTokenRequestWithBlind(challenge, nonce, keyID, issuer.TokenKey(), blind)
	} else {
		st, err = NewBasicPrivateClient().CreateTokenRequest(challenge, nonce, keyID, issuer.TokenKey())
	}
	if err != nil {
		vReach("refused")
		return
	}
	// the caller's buffers are reused for something else
	copy(nonce, vBytes("garbage_nonce", 32, 32))
	copy(keyID, vBytes("garbage_key_id", 32, 32))
	copy(challenge, vBytes("garbage_challenge", 2, 2))
	copy(blind, vBytes("garbage_blind", 48, 48))
	resp, err := issuer.Evaluate(st.Request())
	vAssume(err == nil)
	tok, err := st.FinalizeToken(resp)
	vAssert(err == nil, "finalizes")
	if err != nil {
		return
	}
	vAssert(vBytesEq(tok.Nonce, nonce0), "token-carries-the-original-nonce")
	vAssert(vBytesEq(tok.KeyID, keyID0), "token-carries-the-original-key-id")
	ctx := c11Digest(challenge0)
	vAssert(vBytesEq(tok.Context, ctx), "token-carries-the-original-challenge-digest")
	vAssert(issuer.Verify(tok) == nil, "token-verifies")
	vReach("finalized")
}

func c11Digest(b []byte) []byte { d := sha256.Sum256(b); return d[:] }
