package type1

import (
	"crypto/rand"

	"github.com/cloudflare/circl/oprf"
)

// C16 (request objects): an encoding handed out by Marshal is not changed by anything done to the
// request object afterwards (decoding another request into it, marshalling again), and the
// encoding of a decoded request does not depend on the input buffer staying untouched.
func VerifC16_type1_request_encoding_survives_reuse() {
	vUnwind(6)
	r := &BasicPrivateTokenRequest{TokenKeyID: vByte("id"), BlindedReq: vBytes("blinded", Ne, Ne)}
	first := r.Marshal()
	snap := append([]byte{}, first...)
	other := &BasicPrivateTokenRequest{TokenKeyID: vByte("id2"), BlindedReq: vBytes("blinded2", Ne, Ne)}
	wire := append([]byte{}, other.Marshal()...)
	wireSnap := append([]byte{}, wire...)
	vAssert(r.Unmarshal(wire), "decodes-into-used-object")
	second := r.Marshal()
	vAssert(vBytesEq(first, snap), "earlier-encoding-unchanged")
	vAssert(vBytesEq(wire, wireSnap), "input-unchanged")
	vAssert(vBytesEq(second, wireSnap), "re-encodes-the-new-value")
	wire[0] ^= 0x01
	wire[len(wire)-1] ^= 0x5a
	vAssert(vBytesEq(r.Marshal(), wireSnap), "encoding-independent-of-input-buffer")
	vAssert(vBytesEq(first, snap), "earlier-encoding-still-unchanged")
	vReach("reused")
}

// C16 (finalisation reads its argument, nothing behind it): a response cut short is refused even
// when the bytes that were cut off still sit in the spare capacity of the caller's slice, and the
// caller's buffer is left as it was.
func VerifC16_type1_finalize_ignores_spare_capacity() {
	vUnwind(8)
	key, err := oprf.GenerateKey(oprf.SuiteP384, rand.Reader)
	vAssume(err == nil)
	issuer := NewBasicPrivateIssuer(key)
	st, err := NewBasicPrivateClient().CreateTokenRequest(vBytesC("challenge", 0, 1), vBytes("nonce", 32, 32), issuer.TokenKeyID(), issuer.TokenKey())
	vAssume(err == nil)
	resp, err := issuer.Evaluate(st.Request())
	vAssume(err == nil && len(resp) == Ne+96)
	buf := append([]byte{}, resp...)
	snap := append([]byte{}, resp...)
	cuts := []int{0, 1, Ne - 1, Ne, Ne + 1, Ne + 47, Ne + 48, Ne + 95}
	k := cuts[vSplit(vInt("cut", 0, len(cuts)-1), 0, len(cuts)-1)]
	_, ferr := st.FinalizeToken(buf[:k]) // capacity reaches to the end of the honest response
	vAssert(ferr != nil, "truncated-response-refused-whatever-lies-behind-it")
	vAssert(vBytesEq(buf, snap), "response-buffer-unchanged")
	// and the whole response is accepted afterwards
	_, ferr = st.FinalizeToken(buf)
	vAssert(ferr == nil, "complete-response-accepted")
	vReach("truncated")
}
