package type1

import (
	"crypto/rand"

	"github.com/cloudflare/circl/oprf"
	"github.com/cloudflare/pat-go/tokens"
)

// C17 (type 1): one issuer shared between goroutines. Symbolically each method is executed once
// from the freshly constructed issuer and every write to state that existed before the call is
// reported (two concurrent calls of the method would race on it); natively the same closure runs
// in two goroutines under the race detector.
func VerifC17_type1_issuer() {
	vUnwind(8)
	vUseModels("c17")
	key, err := oprf.GenerateKey(oprf.SuiteP384, rand.Reader)
	vAssume(err == nil)
	issuer := NewBasicPrivateIssuer(key)
	op := vSplit(vInt("op", 0, 4), 0, 4)
	vConcurrently(func() {
		switch op {
		case 0:
			_ = issuer.TokenKey()
		case 1:
			_ = issuer.TokenKeyID()
		case 2:
			_ = issuer.Type()
		case 3:
			req := &BasicPrivateTokenRequest{TokenKeyID: 1, BlindedReq: make([]byte, Ne)}
			_, _ = issuer.Evaluate(req)
		case 4:
			_ = issuer.Verify(tokens.Token{TokenType: 1, Nonce: make([]byte, 32), Context: make([]byte, 32), KeyID: make([]byte, 32), Authenticator: make([]byte, Nk)})
		}
	})
	vSharedEnd()
	vReach("called")
}
