package type1

func VerifTV_type1_request() {
	b := vBytes("b", 0, 700)
	r := &BasicPrivateTokenRequest{}
	ok := r.Unmarshal(b)
	vObserve("ok", ok)
	if ok {
		vObserve("marshal", r.Marshal())
	}
	tok, err := UnmarshalPrivateToken(b)
	vObserve("token-err", err)
	if err == nil {
		vObserve("token", uint64(tok.TokenType), tok.Nonce, tok.Context, tok.KeyID, tok.Authenticator, tok.Marshal(), tok.AuthenticatorInput())
	}
}
