package type2

func VerifC03_type2_token() {
	vUnwind(6)
	b := vBytes("b", 0, vBound("C03_t2_token_len", 360, 600))
	vAllocBegin(64*len(b) + 4096)
	_, err := UnmarshalToken(b)
	vAllocEnd()
	if err == nil {
		vReach("accepted")
	} else {
		vReach("rejected")
	}
}

func VerifC03_type2_request() {
	vUnwind(6)
	b := vBytes("b", 0, vBound("C03_t2_req_len", 270, 600))
	r := &BasicPublicTokenRequest{}
	vAllocBegin(64*len(b) + 4096)
	ok := r.Unmarshal(b)
	if ok {
		_ = r.Marshal()
		vReach("accepted")
	} else {
		vReach("rejected")
	}
	vAllocEnd()
}
