package type2

import "github.com/cloudflare/pat-go/tokens"

func VerifC04_type2_request_rt() {
	vUnwind(6)
	id := vByte("id")
	blinded := vBytes("blinded", 256, 256) // a blinded RSA-2048 message
	r := &BasicPublicTokenRequest{TokenKeyID: id, BlindedReq: blinded}
	enc := r.Marshal()
	vAssert(len(enc) == 2+1+256, "encoding-length")
	r2 := &BasicPublicTokenRequest{}
	ok := r2.Unmarshal(enc)
	vAssert(ok, "decode-accepts-encoding")
	vAssert(r2.TokenKeyID == id, "key-id")
	vAssert(vBytesEq(r2.BlindedReq, blinded), "blinded-element")
	vAssert(r.Equal(*r2), "equal")
	vReach("roundtrip")
}

func VerifC04_type2_request_canon() {
	vUnwind(6)
	b := vBytes("b", 0, 270)
	r := &BasicPublicTokenRequest{}
	if vBool("reused") {
		// the object held another value (and its cached encoding) before
		r.TokenKeyID = vByte("prev_id")
		r.BlindedReq = vBytes("prev_blinded", 0, 257)
		_ = r.Marshal()
	}
	if !r.Unmarshal(b) {
		vReach("rejected")
		return
	}
	enc := r.Marshal()
	vAssert(len(enc) <= len(b), "canonical-no-longer")
	fresh := &BasicPublicTokenRequest{TokenKeyID: r.TokenKeyID, BlindedReq: r.BlindedReq}
	vAssert(vBytesEq(enc, fresh.Marshal()), "marshal-after-unmarshal-is-canonical")
	r3 := &BasicPublicTokenRequest{}
	vAssert(r3.Unmarshal(enc), "canonical-decodes")
	vAssert(r3.TokenKeyID == r.TokenKeyID, "same-key-id")
	vAssert(vBytesEq(r3.BlindedReq, r.BlindedReq), "same-blinded")
	vReach("accepted")
}

func VerifC04_type2_request_typesep() {
	vUnwind(6)
	b := vBytes("b", 2, 270)
	vAssume(!(b[0] == 0 && b[1] == 2))
	r := &BasicPublicTokenRequest{}
	vAssert(!r.Unmarshal(b), "foreign-type-rejected")
	vReach("checked")
}

func VerifC04_type2_token_rt() {
	vUnwind(6)
	t := tokens.Token{TokenType: vU16("type"), Nonce: vBytes("nonce", 32, 32), Context: vBytes("ctx", 32, 32), KeyID: vBytes("keyid", 32, 32), Authenticator: vBytes("auth", Nk, Nk)}
	enc := t.Marshal()
	d, err := UnmarshalToken(enc)
	vAssert(err == nil, "decode-accepts-encoding")
	vAssert(d.TokenType == t.TokenType, "rt-type")
	vAssert(vBytesEq(d.Nonce, t.Nonce), "rt-nonce")
	vAssert(vBytesEq(d.Context, t.Context), "rt-context")
	vAssert(vBytesEq(d.KeyID, t.KeyID), "rt-keyid")
	vAssert(vBytesEq(d.Authenticator, t.Authenticator), "rt-authenticator")
	vReach("roundtrip")
	// canonical form of any accepted string
	b := vBytes("b", 0, 360)
	d2, err2 := UnmarshalToken(b)
	if err2 == nil {
		e2 := d2.Marshal()
		vAssert(len(e2) <= len(b), "canonical-no-longer")
		vAssert(vBytesEq(e2, b[:len(e2)]), "canonical-is-prefix")
		vReach("accepted")
	}
}
