package type2

// C16 (request objects): an encoding handed out by Marshal is not changed by anything done to the
// request object afterwards (decoding another request into it, marshalling again), and the
// encoding of a decoded request does not depend on the input buffer staying untouched.
func VerifC16_type2_request_encoding_survives_reuse() {
	vUnwind(6)
	r := &BasicPublicTokenRequest{TokenKeyID: vByte("id"), BlindedReq: vBytes("blinded", 256, 256)}
	first := r.Marshal()
	snap := append([]byte{}, first...)
	other := &BasicPublicTokenRequest{TokenKeyID: vByte("id2"), BlindedReq: vBytes("blinded2", 256, 256)}
	wire := append([]byte{}, other.Marshal()...)
	wireSnap := append([]byte{}, wire...)
	vAssert(r.Unmarshal(wire), "decodes-into-used-object")
	second := r.Marshal()
	vAssert(vBytesEq(first, snap), "earlier-encoding-unchanged")
	vAssert(vBytesEq(wire, wireSnap), "input-unchanged")
	vAssert(vBytesEq(second, wireSnap), "re-encodes-the-new-value")
	wire[0] ^= 0x01
	wire[len(wire)-1] ^= 0x5a
	vAssert(vBytesEq(r.Marshal(), wireSnap), "encoding-independent-of-input-buffer")
	vAssert(vBytesEq(first, snap), "earlier-encoding-still-unchanged")
	vReach("reused")
}
