package type2

// C17 (type 2): shared issuer, see tokens/type1/zz_verif_C17.go for the method.
func VerifC17_type2_issuer() {
	vUnwind(8)
	issuer := t2Issuer()
	op := vSplit(vInt("op", 0, 3), 0, 3)
	vConcurrently(func() {
		switch op {
		case 0:
			_ = issuer.TokenKey()
		case 1:
			_ = issuer.TokenKeyID()
		case 2:
			_ = issuer.Type()
		case 3:
			req := &BasicPublicTokenRequest{TokenKeyID: 1, BlindedReq: make([]byte, 256)}
			_, _ = issuer.Evaluate(req)
		}
	})
	vSharedEnd()
	vReach("called")
}
