package type2

import (
	"crypto/sha256"

	"github.com/cloudflare/pat-go/util"
)

// C18 (type 2): key id = SHA-256(RSASSA-PSS SubjectPublicKeyInfo); requests carry its last byte.
func VerifC18_type2_key_id() {
	vUnwind(8)
	issuer := t2Issuer()
	enc, err := util.MarshalTokenKeyPSSOID(issuer.TokenKey())
	vAssume(err == nil)
	want := sha256.Sum256(enc)
	vAssert(vBytesEq(issuer.TokenKeyID(), want[:]), "key-id-is-sha256-of-serialized-public-key")
	id := vBytesC("key_id", 1, vBound("C18_keyid_len", 33, 40))
	st, err := NewBasicPublicClient().CreateTokenRequest(vBytesC("challenge", 0, 0), vBytes("nonce", 32, 32), id, issuer.TokenKey())
	vAssume(err == nil)
	vAssert(st.Request().TokenKeyID == id[len(id)-1], "request-carries-last-byte-of-key-id")
	vAssert(st.Request().Marshal()[2] == id[len(id)-1], "wire-carries-last-byte-of-key-id")
	st2, err := NewBasicPublicClient().CreateTokenRequestWithBlind(vBytesC("challenge2", 0, 0), vBytes("nonce2", 32, 32), id, issuer.TokenKey(), vBytes("blind", 256, 256), vBytes("salt", 48, 48))
	if err == nil {
		vAssert(st2.Request().TokenKeyID == id[len(id)-1], "fixed-blind-request-carries-last-byte-of-key-id")
	}
	vReach("key-id")
}
