package type2

import (
	"crypto"
	"crypto/rand"
	"crypto/rsa"
	"crypto/sha512"
)

// an issuer whose RSA key may be larger than the 2048 bits the token type is defined for (the
// blind signature is then longer than the 256-byte authenticator field): only for the client-side
// robustness harnesses of C02
func t2IssuerAnySize() *BasicPublicIssuer {
	bits := 2048
	if vBool("larger_rsa_key") {
		bits = 3072
	}
	key, err := rsa.GenerateKey(rand.Reader, bits)
	vAssume(err == nil)
	return NewBasicPublicIssuer(key)
}

func t2Issuer() *BasicPublicIssuer {
	key, err := rsa.GenerateKey(rand.Reader, 2048)
	vAssume(err == nil)
	return NewBasicPublicIssuer(key)
}

func t2VerifyToken(pk *rsa.PublicKey, enc []byte) bool {
	if len(enc) != 2+32+32+32+256 {
		return false
	}
	d := sha512.Sum384(enc[:98])
	return rsa.VerifyPSS(pk, crypto.SHA384, d[:], enc[98:], &rsa.PSSOptions{Hash: crypto.SHA384, SaltLength: 48}) == nil
}

