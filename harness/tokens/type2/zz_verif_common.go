package type2

import (
	"crypto"
	"crypto/rand"
	"crypto/rsa"
	"crypto/sha512"
)

func t2Issuer() *BasicPublicIssuer {
	key, err := rsa.GenerateKey(rand.Reader, 2048)
	vAssume(err == nil)
	return NewBasicPublicIssuer(key)
}

func t2VerifyToken(pk *rsa.PublicKey, enc []byte) bool {
	if len(enc) != 2+32+32+32+256 {
		return false
	}
	d := sha512.Sum384(enc[:98])
	return rsa.VerifyPSS(pk, crypto.SHA384, d[:], enc[98:], &rsa.PSSOptions{Hash: crypto.SHA384, SaltLength: 48}) == nil
}

