package type2

import (
	"crypto/sha256"
)

// type-2 (blind RSA) protocol harnesses for C01, C02, C03, C11.

func VerifC01_type2_honest() {
	vUnwind(8)
	issuer := t2Issuer()
	client := NewBasicPublicClient()
	challenge := vBytesC("challenge", 0, vBound("C01_challenge2", 8, 70))
	nonce := vBytes("nonce", 32, 32)
	keyID := issuer.TokenKeyID()
	st, err := client.CreateTokenRequest(challenge, nonce, keyID, issuer.TokenKey())
	vAssert(err == nil, "create-request")
	if err != nil {
		return
	}
	wire := append([]byte{}, st.Request().Marshal()...)
	req := &BasicPublicTokenRequest{}
	ok := req.Unmarshal(wire)
	vAssert(ok, "issuer-decodes-request")
	if !ok {
		return
	}
	resp, err := issuer.Evaluate(req)
	vAssert(err == nil, "issuer-evaluates")
	if err != nil {
		return
	}
	tok, err := st.FinalizeToken(append([]byte{}, resp...))
	vAssert(err == nil, "client-finalizes")
	if err != nil {
		return
	}
	enc := tok.Marshal()
	vAssert(t2VerifyToken(issuer.TokenKey(), enc), "token-verifies")
	ctx := sha256.Sum256(challenge)
	vAssert(len(enc) == 2+32+32+32+256, "token-length")
	vAssert(enc[0] == 0x00, "token-type-hi")
	vAssert(enc[1] == 0x02, "token-type-lo")
	vAssert(vBytesEq(enc[2:34], nonce), "token-nonce")
	vAssert(vBytesEq(enc[34:66], ctx[:]), "token-context")
	vAssert(vBytesEq(enc[66:98], keyID), "token-key-id")
	vAssert(len(tok.Authenticator) == 256, "authenticator-length")
	vReach("issued")
}

func t2Setup() (*BasicPublicIssuer, BasicPublicTokenRequestState, []byte, []byte, []byte) {
	return t2SetupWith(t2Issuer())
}

func t2SetupWith(issuer *BasicPublicIssuer) (*BasicPublicIssuer, BasicPublicTokenRequestState, []byte, []byte, []byte) {
	challenge := vBytesC("challenge", 0, 1)
	nonce := vBytes("nonce", 32, 32)
	keyID := issuer.TokenKeyID()
	st, err := NewBasicPublicClient().CreateTokenRequest(challenge, nonce, keyID, issuer.TokenKey())
	vAssume(err == nil)
	return issuer, st, challenge, nonce, keyID
}

func VerifC02_type2_client_rejects() {
	vUnwind(8)
	issuer, st, _, _, _ := t2Setup()
	resp, err := issuer.Evaluate(st.Request())
	vAssume(err == nil)
	var bad []byte
	switch vSplit(vInt("perturbation", 0, 2), 0, 2) {
	case 0:
		bad = append([]byte{}, resp...)
		i := vSplit(vInt("byte", 0, len(resp)-1), 0, len(resp)-1)
		bad[i] ^= 1 << uint(vInt("bit", 0, 7))
		vReach("bit-flip")
	case 1:
		issuer2 := t2Issuer()
		bad, err = issuer2.Evaluate(st.Request())
		vAssume(err == nil)
		vAssume(!vBytesEq(bad, resp))
		vReach("other-key")
	case 2:
		st2, err := NewBasicPublicClient().CreateTokenRequest(vBytesC("challenge2", 0, 1), vBytes("nonce2", 32, 32), issuer.TokenKeyID(), issuer.TokenKey())
		vAssume(err == nil)
		vAssume(!vBytesEq(st2.Request().BlindedReq, st.Request().BlindedReq))
		bad, err = issuer.Evaluate(st2.Request())
		vAssume(err == nil)
		vReach("other-request")
	}
	_, ferr := st.FinalizeToken(bad)
	vAssert(ferr != nil, "perturbed-response-rejected")
}

func VerifC02_type2_success_implies_valid() {
	vUnwind(8)
	issuer, st, challenge, nonce, keyID := t2SetupWith(t2IssuerAnySize())
	var resp []byte
	if vBool("honest") {
		r, err := issuer.Evaluate(st.Request())
		vAssume(err == nil)
		resp = r
	} else {
		resp = vBytesC("resp", 255, 257)
	}
	tok, err := st.FinalizeToken(resp)
	if err != nil {
		vReach("rejected")
		return
	}
	vAssert(t2VerifyToken(issuer.TokenKey(), tok.Marshal()), "returned-token-verifies")
	ctx := sha256.Sum256(challenge)
	vAssert(tok.TokenType == BasicPublicTokenType, "own-type")
	vAssert(vBytesEq(tok.Nonce, nonce), "own-nonce")
	vAssert(vBytesEq(tok.Context, ctx[:]), "own-context")
	vAssert(vBytesEq(tok.KeyID, keyID), "own-key-id")
	vReach("accepted")
}

func VerifC02_type2_refinalize_after_token_overwritten() {
	vUnwind(8)
	issuer, st, challenge, nonce, keyID := t2Setup()
	resp, err := issuer.Evaluate(st.Request())
	vAssume(err == nil)
	tok, err := st.FinalizeToken(resp)
	vAssume(err == nil)
	copy(tok.Nonce, vBytes("g1", 32, 32))
	copy(tok.Context, vBytes("g2", 32, 32))
	copy(tok.KeyID, vBytes("g3", 32, 32))
	copy(tok.Authenticator, vBytes("g4", 256, 256))
	tok2, err := st.FinalizeToken(resp)
	if err != nil {
		vReach("rejected")
		return
	}
	ctx := sha256.Sum256(challenge)
	vAssert(t2VerifyToken(issuer.TokenKey(), tok2.Marshal()), "returned-token-verifies")
	vAssert(vBytesEq(tok2.Nonce, nonce), "own-nonce")
	vAssert(vBytesEq(tok2.Context, ctx[:]), "own-context")
	vAssert(vBytesEq(tok2.KeyID, keyID), "own-key-id")
	vReach("accepted")
}

func VerifC03_type2_finalize() {
	vUnwind(8)
	_, st, _, _, _ := t2Setup()
	resp := vBytes("resp", 0, vBound("C03_t2_resp_len", 300, 600))
	vAllocBegin(64*len(resp) + 8192)
	_, ferr := st.FinalizeToken(resp)
	vAllocEnd()
	if ferr == nil {
		vReach("accepted")
	} else {
		vReach("rejected")
	}
}

func VerifC03_type2_evaluate() {
	vUnwind(8)
	issuer := t2Issuer()
	b := vBytes("b", 0, 270)
	req := &BasicPublicTokenRequest{}
	if !req.Unmarshal(b) {
		vReach("undecodable")
		return
	}
	vAllocBegin(64*len(b) + 8192)
	_, eerr := issuer.Evaluate(req)
	vAllocEnd()
	if eerr == nil {
		vReach("evaluated")
	} else {
		vReach("refused")
	}
}

func VerifC11_type2_fixed_blind() {
	vUnwind(8)
	issuer := t2Issuer()
	challenge := vBytesC("challenge", 0, 1)
	nonce := vBytes("nonce", 32, 32)
	keyID := issuer.TokenKeyID()
	blindA, blindB := vBytes("blindA", 256, 256), vBytes("blindB", 256, 256)
	// the PSS salt of the token type (48 bytes), or none at all: a supplied blind is used either way
	emptySalt := vBool("empty_salt")
	salt := vBytes("salt", 48, 48)
	if emptySalt {
		salt = []byte{}
	}
	a1, err := NewBasicPublicClient().CreateTokenRequestWithBlind(challenge, nonce, keyID, issuer.TokenKey(), blindA, salt)
	if err != nil {
		vReach("blind-refused")
		return
	}
	a2, err := NewBasicPublicClient().CreateTokenRequestWithBlind(append([]byte{}, challenge...), append([]byte{}, nonce...), append([]byte{}, keyID...), issuer.TokenKey(), append([]byte{}, blindA...), append([]byte{}, salt...))
	vAssert(err == nil, "second-run-same-outcome")
	if err != nil {
		return
	}
	vAssert(vBytesEq(a1.Request().Marshal(), a2.Request().Marshal()), "request-is-a-function-of-the-arguments")
	if emptySalt {
		// (a token made with a salt of the wrong length does not verify: nothing more to compare)
		vReach("empty-salt-reproducible")
		return
	}
	b1, err := NewBasicPublicClient().CreateTokenRequestWithBlind(challenge, nonce, keyID, issuer.TokenKey(), blindB, salt)
	if err != nil {
		vReach("second-blind-refused")
		return
	}
	ra, err := issuer.Evaluate(a1.Request())
	vAssume(err == nil)
	rb, err := issuer.Evaluate(b1.Request())
	vAssume(err == nil)
	ta, err := a1.FinalizeToken(ra)
	vAssert(err == nil, "finalize-a")
	tb, err2 := b1.FinalizeToken(rb)
	vAssert(err2 == nil, "finalize-b")
	if err == nil && err2 == nil {
		vAssert(vBytesEq(ta.Marshal(), tb.Marshal()), "token-independent-of-blind")
		vReach("two-blinds")
	}
}

// C01 (type 2, two runs in flight): see the type-5 harness of the same name
func VerifC01_type2_two_outstanding_runs() {
	vUnwind(8)
	issuer := t2Issuer()
	mk := func(tag string) BasicPublicTokenRequestState {
		st, err := NewBasicPublicClient().CreateTokenRequest(vBytesC("challenge"+tag, 0, 1), vBytes("nonce"+tag, 32, 32), issuer.TokenKeyID(), issuer.TokenKey())
		vAssume(err == nil)
		return st
	}
	st1, st2 := mk("1"), mk("2")
	resp1, err := issuer.Evaluate(st1.Request())
	vAssert(err == nil, "first-evaluates")
	resp2, err2 := issuer.Evaluate(st2.Request())
	vAssert(err2 == nil, "second-evaluates")
	if err != nil || err2 != nil {
		return
	}
	tok1, err := st1.FinalizeToken(resp1)
	vAssert(err == nil, "first-run-finalizes-after-second-evaluation")
	tok2, err2 := st2.FinalizeToken(resp2)
	vAssert(err2 == nil, "second-run-finalizes")
	if err == nil {
		vAssert(t2VerifyToken(issuer.TokenKey(), tok1.Marshal()), "first-run-token-verifies")
	}
	if err2 == nil {
		vAssert(t2VerifyToken(issuer.TokenKey(), tok2.Marshal()), "second-run-token-verifies")
	}
	vReach("two-runs")
}

// C02 (type 2, caller-chosen salt): whatever salt length a caller of CreateTokenRequestWithBlind
// picks, a token that FinalizeToken hands out verifies as a type-2 token (RSASSA-PSS, SHA-384,
// salt length 48); with another salt length it must report an error instead
func VerifC02_type2_any_salt_length() {
	vUnwind(8)
	issuer := t2Issuer()
	lens := []int{0, 32, 47, 48, 49, 64}
	salt := vBytesC("salt", 0, 0)
	n := lens[vSplit(vInt("salt_length", 0, len(lens)-1), 0, len(lens)-1)]
	salt = vBytesC("salt_bytes", n, n)
	// a blind that is a unit below the modulus natively too: non-zero, top bit clear
	blind := vBytes("blind", 256, 256)
	blind[0] &= 0x7f
	blind[255] |= 1
	st, err := NewBasicPublicClient().CreateTokenRequestWithBlind(vBytesC("challenge", 0, 1), vBytes("nonce", 32, 32), issuer.TokenKeyID(), issuer.TokenKey(), blind, salt)
	if err != nil {
		vReach("refused")
		return
	}
	resp, err := issuer.Evaluate(st.Request())
	vAssume(err == nil)
	tok, err := st.FinalizeToken(resp)
	if err != nil {
		vAssert(n != 48, "standard-salt-length-finalizes")
		vReach("finalize-refused")
		return
	}
	vAssert(t2VerifyToken(issuer.TokenKey(), tok.Marshal()), "returned-token-verifies-as-type-2")
	vReach("finalized")
}
