package type3

import "crypto/sha256"

// C01 (type 3): honest rate-limited issuance over the wire.
func VerifC01_type3_honest() {
	vUnwind(40)
	vUseModels("ecapi")
	origin := vBytesC("origin", 0, vBound("C01_origin", 33, 66))
	vAssume(len(origin) == 0 || origin[len(origin)-1] != 0)
	issuer := t3Issuer(string(origin))
	secret := vBytes("client_secret", 48, 48)
	vAssume(secret[0] != 0)
	client := NewRateLimitedClientFromSecret(secret)
	challenge := vBytesC("challenge", 0, vBound("C01_challenge3", 1, 70))
	// the two lengths are varied one at a time (their product is beyond the thorough budget)
	vAssume(len(origin) <= 1 || len(challenge) <= 1)
	nonce := vBytes("nonce", 32, 32)
	blind := vBytes("blind", 48, 48)
	vAssume(blind[0] != 0)
	keyID := issuer.TokenKeyID()

	st, err := client.CreateTokenRequest(challenge, nonce, blind, keyID, issuer.TokenKey(), string(origin), issuer.NameKey())
	vAssert(err == nil, "create-request")
	if err != nil {
		return
	}
	wire := append([]byte{}, st.Request().Marshal()...)
	resp, _, err := issuer.Evaluate(wire)
	vAssert(err == nil, "issuer-evaluates")
	if err != nil {
		return
	}
	tok, err := st.FinalizeToken(append([]byte{}, resp...))
	vAssert(err == nil, "client-finalizes")
	if err != nil {
		return
	}
	enc := tok.Marshal()
	vAssert(t3VerifyToken(issuer.TokenKey(), enc), "token-verifies")
	ctx := sha256.Sum256(challenge)
	vAssert(len(enc) == 2+32+32+32+256, "token-length")
	vAssert(enc[0] == 0x00, "token-type-hi")
	vAssert(enc[1] == 0x03, "token-type-lo")
	vAssert(vBytesEq(enc[2:34], nonce), "token-nonce")
	vAssert(vBytesEq(enc[34:66], ctx[:]), "token-context")
	vAssert(vBytesEq(enc[66:98], keyID), "token-key-id")
	vAssert(len(tok.Authenticator) == 256, "authenticator-length")
	vReach("issued")
}
