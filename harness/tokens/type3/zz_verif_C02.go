package type3

import "crypto/sha256"

// C02 (type 3): the client only outputs tokens that verify and belong to its own request.

func VerifC02_type3_client_rejects() {
	vUnwind(40)
	vUseModels("ecapi")
	issuer, st, wire := c07Honest("a", "a")
	resp, _, err := issuer.Evaluate(wire)
	vAssume(err == nil)
	var bad []byte
	switch vSplit(vInt("perturbation", 0, 3), 0, 3) {
	case 0: // any other response of the same length (covers every single-bit corruption)
		bad = vBytes("other_response", len(resp), len(resp))
		vAssume(!vBytesEq(bad, resp))
		vReach("other-same-length")
	case 1: // natively replayable bit flips at the field boundaries (all positions in the thorough tier)
		var i int
		if vBound("C02_all_positions", 0, 1) == 1 {
			i = vSplit(vInt("byte", 0, len(resp)-1), 0, len(resp)-1)
		} else {
			pos := []int{0, 15, 16, 17, len(resp) - 17, len(resp) - 16, len(resp) - 1}
			i = pos[vSplit(vInt("position", 0, len(pos)-1), 0, len(pos)-1)]
		}
		bad = append([]byte{}, resp...)
		bad[i] ^= 1 << uint(vInt("bit", 0, 7))
		vReach("bit-flip")
	case 2: // response to another request of the same client
		secret := t3LastSecret // the same client
		blind2 := vBytes("blind_b", 48, 48)
		vAssume(blind2[0] != 0)
		st2, err := NewRateLimitedClientFromSecret(secret).CreateTokenRequest(vBytesC("challenge_b", 0, 1), vBytes("nonce_b", 32, 32), blind2, issuer.TokenKeyID(), issuer.TokenKey(), "a", issuer.NameKey())
		vAssume(err == nil)
		// fresh randomness does not repeat: the two requests have different HPKE encapsulations
		vAssume(!vBytesEq(st2.Request().EncryptedTokenRequest[:32], st.Request().EncryptedTokenRequest[:32]))
		bad, _, err = issuer.Evaluate(st2.Request().Marshal())
		vAssume(err == nil)
		vReach("other-request")
	case 3: // truncated / extended
		if vBool("truncate") {
			bad = resp[:len(resp)-vSplit(vInt("cut", 1, 3), 1, 3)]
		} else {
			bad = append(append([]byte{}, resp...), vBytesC("extra", 1, 2)...)
		}
		vReach("resized")
	}
	_, ferr := st.FinalizeToken(bad)
	vAssert(ferr != nil, "perturbed-response-rejected")
}

func VerifC02_type3_success_implies_valid() {
	vUnwind(40)
	vUseModels("ecapi")
	issuer, st, wire := c07Honest("a", "a")
	var resp []byte
	if vBool("honest") {
		r, _, err := issuer.Evaluate(wire)
		vAssume(err == nil)
		resp = r
	} else {
		resp = vBytesC("resp", 286, 290)
	}
	tok, err := st.FinalizeToken(resp)
	if err != nil {
		vReach("rejected")
		return
	}
	vAssert(t3VerifyToken(issuer.TokenKey(), tok.Marshal()), "returned-token-verifies")
	ctx := sha256.Sum256(t3LastChallenge)
	vAssert(tok.TokenType == RateLimitedTokenType, "own-type")
	vAssert(vBytesEq(tok.Nonce, t3LastNonce), "own-nonce")
	vAssert(vBytesEq(tok.Context, ctx[:]), "own-context")
	vAssert(vBytesEq(tok.KeyID, issuer.TokenKeyID()), "own-key-id")
	vReach("accepted")
}
