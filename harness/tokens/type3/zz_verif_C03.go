package type3

func VerifC03_type3_token() {
	vUnwind(6)
	b := vBytes("b", 0, vBound("C03_t3_token_len", 360, 600))
	vAllocBegin(64*len(b) + 4096)
	_, err := UnmarshalToken(b)
	vAllocEnd()
	if err == nil {
		vReach("accepted")
	} else {
		vReach("rejected")
	}
}

func VerifC03_type3_request() {
	vUnwind(6)
	b := vBytes("b", 0, vBound("C03_t3_req_len", 400, 1000))
	r := &RateLimitedTokenRequest{}
	vAllocBegin(64*len(b) + 4096)
	ok := r.Unmarshal(b)
	if ok {
		_ = r.Marshal()
		vReach("accepted")
	} else {
		vReach("rejected")
	}
	vAllocEnd()
}

func VerifC03_type3_inner_request() {
	vUnwind(6)
	b := vBytes("b", 0, vBound("C03_t3_inner_len", 400, 1000))
	r := &InnerTokenRequest{}
	vAllocBegin(64*len(b) + 4096)
	ok := r.Unmarshal(b)
	if ok {
		_ = r.Marshal()
		vReach("accepted")
	} else {
		vReach("rejected")
	}
	vAllocEnd()
}
