package type3

// C03 (type 3 protocol steps): arbitrary peer bytes into FinalizeToken, Evaluate, VerifyRequest
// and FinalizeIndex never panic, loop or over-allocate.

func VerifC03_type3_finalize() {
	vUnwind(40)
	vUseModels("ecapi")
	_, st, _ := c07Honest("a", "a")
	resp := vBytes("resp", 0, vBound("C03_t3_resp_len", 320, 600))
	vAllocBegin(64*len(resp) + 8192)
	_, err := st.FinalizeToken(resp)
	vAllocEnd()
	if err == nil {
		vReach("accepted")
	} else {
		vReach("rejected")
	}
}

func VerifC03_type3_evaluate() {
	vUnwind(40)
	vUseModels("ecapi")
	issuer := t3Issuer("a")
	b := vBytes("b", 0, vBound("C03_t3_eval_len", 240, 400))
	if len(b) >= 85 {
		var l uint32
		l = l<<8 | uint32(b[83])
		l = l<<8 | uint32(b[84])
		vAssume(int(l) <= 60)
		vSplit(int(l), 0, 60)
	}
	vAllocBegin(64*len(b) + 8192)
	_, _, err := issuer.Evaluate(b)
	vAllocEnd()
	if err == nil {
		vReach("served")
	} else {
		vReach("refused")
	}
}

// one argument at a time takes an arbitrary length, the others keep their nominal sizes
// (the arguments are handled independently by the code; the product of all lengths is not explored)
func VerifC03_type3_verify_request() {
	vUnwind(110)
	vUseModels("ecapi")
	// nominal values come from an honest request, so that natively the keys are real points
	_, st, _ := c07Honest("a", "a")
	hr := st.Request()
	rk, nk, ct, sig := hr.RequestKey, hr.NameKeyID, hr.EncryptedTokenRequest, hr.Signature
	blind, clientKey, anon := vBytes("blind2", 48, 48), st.ClientKey(), vBytes("anon", 8, 8)
	vAssume(blind[0] != 0)
	switch vSplit(vInt("vary", 0, 5), 0, 5) {
	case 0:
		sig = vBytes("sig_any", 0, 100)
		if vBool("nil_signature") {
			sig = nil
		}
	case 1:
		rk = vBytesC("rk_any", 0, 51)
	case 2:
		nk = vBytesC("nk_any", 0, 34)
	case 3:
		blind = vBytesC("blind_any", 0, 50)
		vAssume(len(blind) == 0 || blind[0] != 0)
	case 4:
		clientKey = vBytes("client_key_any", 0, 51)
	case 5:
		anon = vBytesC("anon_any", 0, 10)
	}
	req := RateLimitedTokenRequest{RequestKey: rk, NameKeyID: nk, EncryptedTokenRequest: ct, Signature: sig}
	attester := NewRateLimitedAttester(&c06Cache{m: map[string]*ClientState{}})
	err := attester.VerifyRequest(req, blind, clientKey, anon)
	if err == nil {
		vReach("accepted")
	} else {
		vReach("rejected")
	}
}

func VerifC03_type3_finalize_index() {
	vUnwind(110)
	vUseModels("ecapi")
	cache := &c06Cache{m: map[string]*ClientState{}}
	attester := NewRateLimitedAttester(cache)
	clientKey, blind, brk, anon := vBytes("client_key", 49, 49), vBytes("blind", 48, 48), vBytes("blinded_request_key", 49, 49), vBytes("anon", 8, 8)
	vAssume(blind[0] != 0)
	switch vSplit(vInt("vary", 0, 3), 0, 3) {
	case 0:
		clientKey = vBytesC("client_key_any", 0, 50)
	case 1:
		blind = vBytesC("blind_any", 0, 50)
		vAssume(len(blind) == 0 || blind[0] != 0)
	case 2:
		brk = vBytes("blinded_request_key_any", 0, 51)
	case 3:
		anon = vBytesC("anon_any", 0, 10)
	}
	if vBool("known_client") {
		cache.m[hexOf(clientKey)] = &ClientState{originIndices: map[string]string{}, clientIndices: map[string]string{}, originCounts: map[string]int{}}
	}
	_, err := attester.FinalizeIndex(clientKey, blind, brk, anon)
	if err == nil {
		vReach("computed")
	} else {
		vReach("refused")
	}
}


// well-formed, correctly signed and encrypted requests for every short origin name (including the
// empty one and unregistered ones): Evaluate answers with a response or an error, never a panic
func VerifC03_type3_evaluate_honest_origins() {
	vUnwind(40)
	vUseModels("ecapi")
	name := vBytesC("origin", 0, 2)
	reg := vBytesC("registered", 0, 2)
	issuer, _, wire := c07Honest(string(name), string(reg))
	_, _, err := issuer.Evaluate(wire)
	if err == nil {
		vReach("served")
	} else {
		vReach("refused")
	}
}
