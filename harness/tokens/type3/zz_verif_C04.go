package type3

func VerifC04_type3_request_rt() {
	vUnwind(6)
	m := vBound("C04_t3_ct", 6, 40)
	r := &RateLimitedTokenRequest{
		RequestKey:            vBytes("rk", 49, 49),
		NameKeyID:             vBytes("nk", 32, 32),
		EncryptedTokenRequest: vBytesC("ct", 1, m),
		Signature:             vBytes("sig", 96, 96),
	}
	enc := r.Marshal()
	vAssert(len(enc) == 2+49+32+2+len(r.EncryptedTokenRequest)+96, "encoding-length")
	r2 := &RateLimitedTokenRequest{}
	vAssert(r2.Unmarshal(enc), "decode-accepts-encoding")
	vAssert(vBytesEq(r2.RequestKey, r.RequestKey), "rt-request-key")
	vAssert(vBytesEq(r2.NameKeyID, r.NameKeyID), "rt-name-key-id")
	vAssert(vBytesEq(r2.EncryptedTokenRequest, r.EncryptedTokenRequest), "rt-ciphertext")
	vAssert(vBytesEq(r2.Signature, r.Signature), "rt-signature")
	vReach("roundtrip")
}

func VerifC04_type3_request_canon() {
	vUnwind(6)
	b := vBytes("b", 0, vBound("C04_t3_req_len", 200, 400))
	if len(b) >= 85 {
		// case split on the declared ciphertext length (computed the way cryptobyte does, so that
		// the engine's constant propagation applies); longer ciphertexts are outside this harness
		var l uint32
		l = l<<8 | uint32(b[83])
		l = l<<8 | uint32(b[84])
		m := vBound("C04_t3_ct_canon", 6, 24)
		vAssume(int(l) <= m)
		vSplit(int(l), 0, m)
	}
	r := &RateLimitedTokenRequest{}
	if vBool("reused") {
		r.RequestKey = vBytes("prev_rk", 49, 49)
		r.NameKeyID = vBytes("prev_nk", 32, 32)
		r.EncryptedTokenRequest = vBytesC("prev_ct", 1, 4)
		r.Signature = vBytes("prev_sig", 96, 96)
		_ = r.Marshal()
	}
	if !r.Unmarshal(b) {
		vReach("rejected")
		return
	}
	enc := r.Marshal()
	vAssert(len(enc) <= len(b), "canonical-no-longer")
	fresh := &RateLimitedTokenRequest{RequestKey: r.RequestKey, NameKeyID: r.NameKeyID, EncryptedTokenRequest: r.EncryptedTokenRequest, Signature: r.Signature}
	vAssert(vBytesEq(enc, fresh.Marshal()), "marshal-after-unmarshal-is-canonical")
	r3 := &RateLimitedTokenRequest{}
	vAssert(r3.Unmarshal(enc), "canonical-decodes")
	vAssert(vBytesEq(r3.RequestKey, r.RequestKey), "same-request-key")
	vAssert(vBytesEq(r3.NameKeyID, r.NameKeyID), "same-name-key-id")
	vAssert(vBytesEq(r3.EncryptedTokenRequest, r.EncryptedTokenRequest), "same-ciphertext")
	vAssert(vBytesEq(r3.Signature, r.Signature), "same-signature")
	vReach("accepted")
}

func VerifC04_type3_request_typesep() {
	vUnwind(6)
	b := vBytes("b", 2, 260)
	vAssume(!(b[0] == 0 && b[1] == 3))
	r := &RateLimitedTokenRequest{}
	vAssert(!r.Unmarshal(b), "foreign-type-rejected")
	vReach("checked")
}

func VerifC04_type3_inner_rt() {
	vUnwind(6)
	m := vBound("C04_t3_origin", 6, 40)
	r := &InnerTokenRequest{tokenKeyId: vByte("id"), blindedMsg: vBytes("msg", 256, 256), paddedOrigin: vBytesC("origin", 0, m)}
	enc := r.Marshal()
	vAssert(len(enc) == 1+256+2+len(r.paddedOrigin), "encoding-length")
	r2 := &InnerTokenRequest{}
	vAssert(r2.Unmarshal(enc), "decode-accepts-encoding")
	vAssert(r2.tokenKeyId == r.tokenKeyId, "rt-key-id")
	vAssert(vBytesEq(r2.blindedMsg, r.blindedMsg), "rt-blinded-msg")
	vAssert(vBytesEq(r2.paddedOrigin, r.paddedOrigin), "rt-origin")
	vReach("roundtrip")
}

func VerifC04_type3_inner_canon() {
	vUnwind(6)
	b := vBytes("b", 0, vBound("C04_t3_inner_len", 300, 600))
	if len(b) >= 259 {
		var l uint32
		l = l<<8 | uint32(b[257])
		l = l<<8 | uint32(b[258])
		m := vBound("C04_t3_origin_canon", 6, 40)
		vAssume(int(l) <= m)
		vSplit(int(l), 0, m)
	}
	r := &InnerTokenRequest{}
	if vBool("reused") {
		r.tokenKeyId = vByte("prev_id")
		r.blindedMsg = vBytes("prev_msg", 256, 256)
		r.paddedOrigin = vBytesC("prev_origin", 0, 4)
		_ = r.Marshal()
	}
	if !r.Unmarshal(b) {
		vReach("rejected")
		return
	}
	enc := r.Marshal()
	vAssert(len(enc) <= len(b), "canonical-no-longer")
	fresh := &InnerTokenRequest{tokenKeyId: r.tokenKeyId, blindedMsg: r.blindedMsg, paddedOrigin: r.paddedOrigin}
	vAssert(vBytesEq(enc, fresh.Marshal()), "marshal-after-unmarshal-is-canonical")
	r3 := &InnerTokenRequest{}
	vAssert(r3.Unmarshal(enc), "canonical-decodes")
	vAssert(r3.tokenKeyId == r.tokenKeyId, "same-key-id")
	vAssert(vBytesEq(r3.blindedMsg, r.blindedMsg), "same-blinded-msg")
	vAssert(vBytesEq(r3.paddedOrigin, r.paddedOrigin), "same-origin")
	vReach("accepted")
}

// EncapKey: decoding the encoding of any key gives the same key back (every KEM/KDF/AEAD the
// decoder accepts), and the canonical form of any accepted string is the string itself
func VerifC04_type3_encap_key() {
	vUnwind(8)
	b := vBytesC("b", 0, 40)
	k, err := UnmarshalEncapKey(b)
	if err != nil {
		vReach("rejected")
		return
	}
	enc := k.Marshal()
	vAssert(len(enc) <= len(b), "canonical-no-longer")
	vAssert(vBytesEq(enc, b[:len(enc)]), "canonical-encoding-is-the-accepted-prefix")
	k2, err := UnmarshalEncapKey(enc)
	vAssert(err == nil, "canonical-decodes")
	if err == nil {
		vAssert(k2.id == k.id, "same-id")
		vAssert(k2.suite.KEM.ID() == k.suite.KEM.ID(), "same-kem")
		vAssert(k2.suite.KDF.ID() == k.suite.KDF.ID(), "same-kdf")
		vAssert(k2.suite.AEAD.ID() == k.suite.AEAD.ID(), "same-aead")
		vAssert(vBytesEq(k2.suite.KEM.SerializePublicKey(k2.publicKey), k.suite.KEM.SerializePublicKey(k.publicKey)), "same-public-key")
	}
	// the fields are where the wire format puts them
	vAssert(b[0] == k.id, "id-byte")
	vAssert(uint16(b[1])<<8|uint16(b[2]) == uint16(k.suite.KEM.ID()), "kem-id-bytes")
	n := k.suite.KEM.PublicKeySize()
	vAssert(uint16(b[3+n])<<8|uint16(b[4+n]) == uint16(k.suite.KDF.ID()), "kdf-id-bytes")
	vAssert(uint16(b[5+n])<<8|uint16(b[6+n]) == uint16(k.suite.AEAD.ID()), "aead-id-bytes")
	vReach("accepted")
}
