package type3

// C06: the attester accepts a rate-limited request only if it is authentic, and a rejected
// request never touches the client-state cache.

// replace b by arbitrary other bytes of the same length (covers every single-bit corruption)
func c06Other(name string, b []byte) []byte {
	o := vBytes(name, len(b), len(b))
	vAssume(!vBytesEq(o, b))
	return o
}

// n - d for the P-384 group order n and a 48-byte big-endian d < n
func c06Negate(d []byte) []byte {
	n := []byte{0xff, 0xff, 0xff, 0xff, 0xff, 0xff, 0xff, 0xff, 0xff, 0xff, 0xff, 0xff, 0xff, 0xff, 0xff, 0xff, 0xff, 0xff, 0xff, 0xff, 0xff, 0xff, 0xff, 0xff,
		0xc7, 0x63, 0x4d, 0x81, 0xf4, 0x37, 0x2d, 0xdf, 0x58, 0x1a, 0x0d, 0xb2, 0x48, 0xb0, 0xa7, 0x7a, 0xec, 0xec, 0x19, 0x6a, 0xcc, 0xc5, 0x29, 0x73}
	out := make([]byte, 48)
	var borrow uint16
	for i := 47; i >= 0; i-- {
		v := uint16(n[i]) - uint16(d[i]) - borrow
		out[i] = byte(v)
		borrow = (v >> 8) & 1
	}
	return out
}

func VerifC06_attester_authentic() {
	vUnwind(40)
	vUseModels("ecapi")
	issuer := t3Issuer("a")
	secret := vBytes("client_secret", 48, 48)
	vAssume(secret[0] != 0)
	client := NewRateLimitedClientFromSecret(secret)
	blind := vBytes("blind", 48, 48)
	vAssume(blind[0] != 0)
	st, err := client.CreateTokenRequest(vBytesC("challenge", 0, vBound("C06_challenge", 1, 33)), vBytes("nonce", 32, 32), blind, issuer.TokenKeyID(), issuer.TokenKey(), "a", issuer.NameKey())
	vAssume(err == nil)
	if vBool("marshalled_before") {
		// the request object may already carry a cached encoding when its fields are changed
		_ = st.Request().Marshal()
	}
	req := *st.Request()
	clientKey := st.ClientKey()
	anon := vBytes("anon_origin", 8, 8)
	cache := &c06Cache{m: map[string]*ClientState{}}
	attester := NewRateLimitedAttester(cache)

	p := vSplit(vInt("perturbation", 0, 9), 0, 9)
	switch p {
	case 0:
		vReach("honest")
	case 1:
		req.RequestKey = c06Other("other_request_key", req.RequestKey)
		vReach("request-key-changed")
	case 2:
		req.NameKeyID = c06Other("other_name_key_id", req.NameKeyID)
		vReach("name-key-id-changed")
	case 3:
		req.EncryptedTokenRequest = c06Other("other_ciphertext", req.EncryptedTokenRequest)
		vReach("ciphertext-changed")
	case 4:
		req.Signature = c06Other("other_signature", req.Signature)
		vReach("signature-changed")
	case 5: // whole request from another client (other long-term key), presented with this client's key
		secret2 := vBytes("client_secret2", 48, 48)
		vAssume(secret2[0] != 0 && !vBytesEq(secret2, secret))
		st2, err := NewRateLimitedClientFromSecret(secret2).CreateTokenRequest(vBytesC("challenge2", 0, 1), vBytes("nonce2", 32, 32), blind, issuer.TokenKeyID(), issuer.TokenKey(), "a", issuer.NameKey())
		vAssume(err == nil)
		vAssume(!vBytesEq(st2.ClientKey(), clientKey))
		req = *st2.Request()
		vReach("other-clients-request")
	case 6: // wrong blind
		blind = c06Other("other_blind", blind)
		vAssume(blind[0] != 0)
		vReach("wrong-blind")
	case 7: // wrong client key
		secret3 := vBytes("client_secret3", 48, 48)
		vAssume(secret3[0] != 0 && !vBytesEq(secret3, secret))
		other := NewRateLimitedClientFromSecret(secret3)
		st3, err := other.CreateTokenRequest(vBytesC("challenge3", 0, 1), vBytes("nonce3", 32, 32), blind, issuer.TokenKeyID(), issuer.TokenKey(), "a", issuer.NameKey())
		vAssume(err == nil)
		vAssume(!vBytesEq(st3.ClientKey(), clientKey))
		clientKey = st3.ClientKey()
		vReach("wrong-client-key")
	case 8: // malformed client key
		clientKey = vBytes("garbage_client_key", 0, 50)
		vAssume(!vBytesEq(clientKey, st.ClientKey()))
		vReach("malformed-client-key")
	case 9: // the request of the client whose secret is the negative of this one's: its request key
		// is the negative of this client's blinded key (same x coordinate, other y)
		vAssume(secret[0] != 0xff)
		st4, err := NewRateLimitedClientFromSecret(c06Negate(secret)).CreateTokenRequest(vBytesC("challenge4", 0, 1), vBytes("nonce4", 32, 32), blind, issuer.TokenKeyID(), issuer.TokenKey(), "a", issuer.NameKey())
		vAssume(err == nil)
		vAssume(!vBytesEq(st4.ClientKey(), clientKey))
		req = *st4.Request()
		vReach("negated-clients-request")
	}
	verr := attester.VerifyRequest(req, blind, clientKey, anon)
	if p == 0 {
		vAssert(verr == nil, "honest-request-accepted")
		vAssert(cache.puts == 1, "honest-request-creates-state")
	} else {
		// (one label per perturbation class: each class gets its own native replay)
		names := []string{"", "request-key", "name-key-id", "ciphertext", "signature", "other-client", "wrong-blind", "wrong-client-key", "malformed-client-key", "negated-client"}
		vAssert(verr != nil, "inauthentic-request-rejected-"+names[p])
		vAssert(cache.puts == 0, "rejected-request-leaves-cache-untouched")
	}
}

// fully arbitrary request fields and arguments: acceptance is impossible without a signature
// that the request key produced, and nothing is cached
func VerifC06_attester_arbitrary() {
	vUnwind(40)
	vUseModels("ecapi")
	req := RateLimitedTokenRequest{RequestKey: vBytes("rk", 49, 49), NameKeyID: vBytes("nk", 32, 32), EncryptedTokenRequest: vBytesC("ct", 1, 3), Signature: vBytes("sig", 96, 96)}
	cache := &c06Cache{m: map[string]*ClientState{}}
	attester := NewRateLimitedAttester(cache)
	verr := attester.VerifyRequest(req, vBytes("blind", 48, 48), vBytes("client_key", 49, 49), vBytes("anon", 8, 8))
	vAssert(verr != nil, "unsigned-request-rejected")
	vAssert(cache.puts == 0, "rejected-request-leaves-cache-untouched")
	vReach("checked")
}

// a rejected call leaves no trace in the attester: whatever was refused before (here a request
// whose signature has the wrong length, the earliest rejection point after the key is decoded, or
// one with a wrong signature), the next authentic request is accepted and the next inauthentic
// one is still refused
func VerifC06_attester_rejected_call_leaves_no_trace() {
	vUnwind(40)
	vUseModels("ecapi")
	issuer := t3Issuer("a")
	var secrets [][]byte
	mk := func(tag string) (RateLimitedTokenRequestState, []byte) {
		secret := vBytes("client_secret"+tag, 48, 48)
		vAssume(secret[0] != 0)
		secrets = append(secrets, secret)
		blind := vBytes("blind"+tag, 48, 48)
		vAssume(blind[0] != 0)
		st, err := NewRateLimitedClientFromSecret(secret).CreateTokenRequest(vBytesC("challenge"+tag, 0, 0), vBytes("nonce"+tag, 32, 32), blind, issuer.TokenKeyID(), issuer.TokenKey(), "a", issuer.NameKey())
		vAssume(err == nil)
		return st, blind
	}
	st1, blind1 := mk("1")
	st2, blind2 := mk("2")
	// two different clients (signatures made for one request key say nothing about another)
	vAssume(!vBytesEq(secrets[0], secrets[1]))
	vAssume(!vBytesEq(st1.Request().RequestKey, st2.Request().RequestKey))
	anon := vBytes("anon_origin", 8, 8)
	cache := &c06Cache{m: map[string]*ClientState{}}
	attester := NewRateLimitedAttester(cache)

	bad := *st1.Request()
	switch vSplit(vInt("first_rejection", 0, 3), 0, 3) {
	case 0:
		bad.Signature = bad.Signature[:95]
	case 1:
		bad.Signature = append(append([]byte{}, bad.Signature...), vByte("extra"))
	case 2:
		bad.Signature = []byte{}
	default:
		bad.Signature = c06Other("other_signature", bad.Signature)
	}
	vAssert(attester.VerifyRequest(bad, blind1, st1.ClientKey(), anon) != nil, "malformed-request-rejected")
	vAssert(cache.puts == 0, "rejected-request-leaves-cache-untouched")

	if vBool("second_is_authentic") {
		vAssert(attester.VerifyRequest(*st2.Request(), blind2, st2.ClientKey(), anon) == nil, "authentic-request-accepted-after-a-rejected-one")
		vAssert(cache.puts == 1, "accepted-request-creates-state")
		vReach("then-authentic")
	} else {
		forged := *st2.Request()
		forged.Signature = c06Other("forged_signature", forged.Signature)
		vAssert(attester.VerifyRequest(forged, blind2, st2.ClientKey(), anon) != nil, "inauthentic-request-rejected-after-a-rejected-one")
		vAssert(cache.puts == 0, "second-rejected-request-leaves-cache-untouched")
		vReach("then-inauthentic")
	}
}

// a large request (origin name of about 1 KiB, so that the signed message exceeds any small fixed
// buffer): accepted as is, rejected with any other ciphertext or signature
func VerifC06_attester_large_request() {
	vUnwind(40)
	vUseModels("ecapi")
	name := make([]byte, vBound("C06_large_origin", 1000, 4000))
	for i := range name {
		name[i] = 'a' + byte(i%26)
	}
	issuer := t3Issuer(string(name))
	secret := vBytes("client_secret", 48, 48)
	vAssume(secret[0] != 0)
	blind := vBytes("blind", 48, 48)
	vAssume(blind[0] != 0)
	st, err := NewRateLimitedClientFromSecret(secret).CreateTokenRequest(vBytesC("challenge", 0, 0), vBytes("nonce", 32, 32), blind, issuer.TokenKeyID(), issuer.TokenKey(), string(name), issuer.NameKey())
	vAssume(err == nil)
	req := *st.Request()
	anon := vBytes("anon_origin", 8, 8)
	cache := &c06Cache{m: map[string]*ClientState{}}
	attester := NewRateLimitedAttester(cache)
	switch vSplit(vInt("perturbation", 0, 2), 0, 2) {
	case 0:
		vAssert(attester.VerifyRequest(req, blind, st.ClientKey(), anon) == nil, "large-honest-request-accepted")
		vReach("honest")
	case 1:
		req.EncryptedTokenRequest = append([]byte{}, req.EncryptedTokenRequest...)
		req.EncryptedTokenRequest[vSplit(vInt("position", 0, 2), 0, 2)*(len(req.EncryptedTokenRequest)-1)/2] ^= 1 << uint(vInt("bit", 0, 7))
		vAssert(attester.VerifyRequest(req, blind, st.ClientKey(), anon) != nil, "large-request-with-changed-ciphertext-rejected")
		vAssert(cache.puts == 0, "rejected-request-leaves-cache-untouched")
		vReach("ciphertext-changed")
	default:
		req.Signature = c06Other("other_signature", req.Signature)
		vAssert(attester.VerifyRequest(req, blind, st.ClientKey(), anon) != nil, "large-request-with-changed-signature-rejected")
		vReach("signature-changed")
	}
}
