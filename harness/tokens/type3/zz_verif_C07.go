package type3


// honest request for a registered origin is served; every single-bit change of it is rejected
func VerifC07_issuer_bitflips() {
	vUnwind(40)
	vUseModels("ecapi")
	issuer, _, wire := c07Honest("a", "a")
	if vBool("honest") {
		resp, key, err := issuer.Evaluate(wire)
		vAssert(err == nil, "honest-request-served")
		vAssert(len(resp) == 16+256+16, "response-length")
		vAssert(len(key) == 49, "blinded-request-key-length")
		vReach("honest")
		return
	}
	// every byte position is a separate path (a symbolic position would make the decoded
	// lengths symbolic); the bit within the byte is symbolic
	// (that every other message of this length is rejected is decided for all positions at once
	// by VerifC07_issuer_other_messages; this harness yields natively replayable flips, at the
	// field boundaries in the quick tier and at every position in the thorough tier)
	var i int
	if vBound("C07_all_positions", 0, 1) == 1 {
		i = vSplit(vInt("byte", 0, len(wire)-1), 0, len(wire)-1)
	} else {
		pos := []int{0, 1, 2, 50, 51, 82, 83, 84, 85, 116, 117, len(wire) - 97, len(wire) - 96, len(wire) - 1}
		i = pos[vSplit(vInt("position", 0, len(pos)-1), 0, len(pos)-1)]
	}
	bad := append([]byte{}, wire...)
	bad[i] ^= 1 << uint(vInt("bit", 0, 7))
	c07Rejected(issuer, bad)
	vReach("bit-flip")
}

// any other message of the same length, truncations and extensions are rejected as well
func VerifC07_issuer_other_messages() {
	vUnwind(40)
	vUseModels("ecapi")
	issuer, _, wire := c07Honest("a", "a")
	switch vSplit(vInt("kind", 0, 2), 0, 2) {
	case 0:
		other := vBytes("other_wire", len(wire), len(wire))
		vAssume(!vBytesEq(other, wire))
		// the declared ciphertext length, computed as the decoder does (constant propagation)
		var l uint32
		l = l<<8 | uint32(other[83])
		l = l<<8 | uint32(other[84])
		if int(l) == len(wire)-85-96 {
			vReach("same-layout")
		}
		c07Rejected(issuer, other)
		vReach("other-same-length")
	case 1:
		cut := vSplit(vInt("cut", 1, 97), 1, 97)
		c07Rejected(issuer, wire[:len(wire)-cut])
		vReach("truncated")
	case 2:
		ext := append(append([]byte{}, wire...), vBytesC("extra", 1, 2)...)
		c07Rejected(issuer, ext)
		vReach("extended")
	}
}

// unregistered origin, request encrypted to another issuer's name key
func VerifC07_issuer_origin_and_name_key() {
	vUnwind(40)
	vUseModels("ecapi")
	switch vSplit(vInt("kind", 0, 1), 0, 1) {
	case 0:
		name := vBytesC("origin", 0, 2)
		vAssume(len(name) == 0 || name[len(name)-1] != 0)
		reg := vBytesC("registered", 0, 2)
		vAssume(len(reg) == 0 || reg[len(reg)-1] != 0)
		vAssume(!vBytesEq(name, reg))
		issuer, _, wire := c07Honest(string(name), string(reg))
		c07Rejected(issuer, wire)
		vReach("unregistered-origin")
	case 1:
		issuer, _, _ := c07Honest("a", "a")
		other := t3Issuer("a")
		// issuers set up independently have different name keys (fresh randomness does not repeat)
		vAssert(!vBytesEq(other.NameKey().Marshal(), issuer.NameKey().Marshal()), "independent-issuers-have-different-name-keys")
		secret := vBytes("client_secret_b", 48, 48)
		vAssume(secret[0] != 0)
		blind := vBytes("blind_b", 48, 48)
		vAssume(blind[0] != 0)
		st, err := NewRateLimitedClientFromSecret(secret).CreateTokenRequest(vBytesC("challenge_b", 0, 1), vBytes("nonce_b", 32, 32), blind, issuer.TokenKeyID(), issuer.TokenKey(), "a", other.NameKey())
		vAssume(err == nil)
		c07Rejected(issuer, st.Request().Marshal())
		vReach("foreign-name-key")
	}
}

// fully arbitrary bytes: nothing is served without a signature made by the request key
func VerifC07_issuer_arbitrary() {
	vUnwind(40)
	vUseModels("ecapi")
	issuer := t3Issuer("a")
	b := vBytes("b", 0, vBound("C07_arbitrary_len", 200, 400))
	if len(b) >= 85 {
		var l uint32
		l = l<<8 | uint32(b[83])
		l = l<<8 | uint32(b[84])
		vAssume(int(l) <= 40)
		vSplit(int(l), 0, 40)
	}
	c07Rejected(issuer, b)
	vReach("checked")
}
