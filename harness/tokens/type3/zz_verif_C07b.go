package type3

import (
	"crypto/rand"
	"crypto/sha512"

	"github.com/cloudflare/pat-go/ecdsa"
	"golang.org/x/crypto/cryptobyte"
)

// C07 (the encrypted inner request is bound to the request key): another client takes the
// ciphertext of an honest request, puts it under its own request key and signs the result
// properly with that key. Everything the attester checks holds for this request; the issuer must
// still refuse it, because the ciphertext was sealed for the other request key.
func VerifC07_issuer_transplanted_ciphertext() {
	vUnwind(40)
	vUseModels("ecapi")
	issuer, st, _ := c07Honest("a", "a")
	victim := st.Request()

	secret := vBytes("client_secret_b", 48, 48)
	vAssume(secret[0] != 0 && !vBytesEq(secret, t3LastSecret))
	blind := vBytes("blind_b", 48, 48)
	vAssume(blind[0] != 0)
	thief := NewRateLimitedClientFromSecret(secret)
	// the thief's own honest request gives its request key
	own, err := thief.CreateTokenRequest(vBytesC("challenge_b", 0, 1), vBytes("nonce_b", 32, 32), blind, issuer.TokenKeyID(), issuer.TokenKey(), "a", issuer.NameKey())
	vAssume(err == nil)
	vAssume(!vBytesEq(own.Request().RequestKey, victim.RequestKey))

	// signature of the thief's blinded key over (type, its request key, name key id, the victim's ciphertext)
	b := cryptobyte.NewBuilder(nil)
	b.AddUint16(RateLimitedTokenType)
	b.AddBytes([]byte("ClientBlind"))
	ctx := b.BytesOrPanic()
	blindKey, err := ecdsa.CreateKey(thief.curve, blind)
	vAssume(err == nil)
	b = cryptobyte.NewBuilder(nil)
	b.AddUint16(RateLimitedTokenType)
	b.AddBytes(own.Request().RequestKey)
	b.AddBytes(victim.NameKeyID)
	b.AddUint16LengthPrefixed(func(b *cryptobyte.Builder) {
		b.AddBytes(victim.EncryptedTokenRequest)
	})
	h := sha512.New384()
	h.Write(b.BytesOrPanic())
	r, s, err := ecdsa.BlindKeySignWithContext(rand.Reader, thief.secretKey, blindKey, h.Sum(nil), ctx)
	vAssume(err == nil)
	sig := make([]byte, 96)
	r.FillBytes(sig[:48])
	s.FillBytes(sig[48:])

	forged := &RateLimitedTokenRequest{RequestKey: own.Request().RequestKey, NameKeyID: victim.NameKeyID, EncryptedTokenRequest: victim.EncryptedTokenRequest, Signature: sig}
	c07Rejected(issuer, forged.Marshal())
	vReach("transplanted")
}
