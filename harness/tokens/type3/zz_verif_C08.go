package type3

import (
	"crypto/elliptic"
	"crypto/sha512"
	"io"

	"github.com/cloudflare/pat-go/ecdsa"
	"golang.org/x/crypto/hkdf"
)

// C08: the anonymous issuer origin ID depends on the client key and the origin index key only.

// the ID prescribed by the draft, computed without the attester / issuer code
func c08Spec(clientSecret, indexKeyBytes []byte) ([]byte, []byte) {
	curve := elliptic.P384()
	clientSk, err := ecdsa.CreateKey(curve, clientSecret)
	vAssume(err == nil)
	indexSk, err := ecdsa.CreateKey(curve, indexKeyBytes)
	vAssume(err == nil)
	clientKey := elliptic.MarshalCompressed(curve, clientSk.PublicKey.X, clientSk.PublicKey.Y)
	ctx := []byte{0x00, 0x03, 'I', 's', 's', 'u', 'e', 'r', 'B', 'l', 'i', 'n', 'd'}
	blinded, err := ecdsa.BlindPublicKeyWithContext(curve, &clientSk.PublicKey, indexSk, ctx)
	vAssume(err == nil)
	ikm := elliptic.MarshalCompressed(curve, blinded.X, blinded.Y)
	out := make([]byte, 48)
	_, err = io.ReadFull(hkdf.New(sha512.New384, ikm, clientKey, []byte("IssuerOriginAlias")), out)
	vAssume(err == nil)
	return out, clientKey
}

// one complete request: client -> issuer -> attester index computation
func c08Run(issuer *RateLimitedIssuer, clientSecret, blind, nonce, challenge []byte, tag string) []byte {
	client := NewRateLimitedClientFromSecret(clientSecret)
	st, err := client.CreateTokenRequest(challenge, nonce, blind, issuer.TokenKeyID(), issuer.TokenKey(), "a", issuer.NameKey())
	vAssert(err == nil, "create-request")
	_, brk, err := issuer.Evaluate(st.Request().Marshal())
	vAssert(err == nil, "issuer-evaluates")
	cache := &c06Cache{m: map[string]*ClientState{}}
	attester := NewRateLimitedAttester(cache)
	vAssert(attester.VerifyRequest(*st.Request(), blind, st.ClientKey(), []byte(tag)) == nil, "attester-accepts")
	idx, err := attester.FinalizeIndex(st.ClientKey(), blind, brk, []byte(tag))
	vAssert(err == nil, "index-computed")
	return idx
}

func c08Issuer(indexKeyBytes []byte) *RateLimitedIssuer {
	issuer := t3Issuer()
	k, err := ecdsa.CreateKey(elliptic.P384(), indexKeyBytes)
	vAssume(err == nil)
	vAssume(issuer.AddOriginWithIndexKey("a", k) == nil)
	return issuer
}

func VerifC08_index_formula_and_stability() {
	vUnwind(110)
	vUseModels("ecapi")
	secret := vBytes("client_secret", 48, 48)
	vAssume(secret[0] != 0)
	indexKey := vBytes("index_key", 48, 48)
	vAssume(indexKey[0] != 0)
	issuer := c08Issuer(indexKey)
	want, _ := c08Spec(secret, indexKey)

	// blind encodings of 47 and 48 bytes (minimal big-endian form of a scalar below / above 2^376)
	blind1 := vBytesC("blind1", 47, 48)
	vAssume(blind1[0] != 0)
	idx1 := c08Run(issuer, secret, blind1, vBytes("nonce1", 32, 32), vBytesC("challenge1", 0, vBound("C08_challenge", 1, 6)), "aaaaaaaa")
	vAssert(vBytesEq(idx1, want), "id-is-hkdf-of-client-key-blinded-by-index-key")

	blind2 := vBytesC("blind2", 47, 48)
	vAssume(blind2[0] != 0)
	idx2 := c08Run(issuer, secret, blind2, vBytes("nonce2", 32, 32), vBytesC("challenge2", 0, vBound("C08_challenge", 1, 6)), "aaaaaaaa")
	vAssert(vBytesEq(idx2, idx1), "id-independent-of-blind-nonce-challenge")
	vReach("stable")
}

func VerifC08_index_distinct() {
	vUnwind(110)
	vUseModels("ecapi")
	secret := vBytes("client_secret", 48, 48)
	vAssume(secret[0] != 0)
	indexKey := vBytes("index_key", 48, 48)
	vAssume(indexKey[0] != 0)
	base, baseKey := c08Spec(secret, indexKey)
	if vBool("other_client") {
		secret2 := vBytes("client_secret2", 48, 48)
		vAssume(secret2[0] != 0)
		other, otherKey := c08Spec(secret2, indexKey)
		vAssume(!vBytesEq(otherKey, baseKey)) // distinct clients = distinct public keys
		vAssert(!vBytesEq(other, base), "distinct-clients-distinct-ids")
		issuer := c08Issuer(indexKey)
		blind := vBytes("blind", 48, 48)
		vAssume(blind[0] != 0)
		got := c08Run(issuer, secret2, blind, vBytes("nonce", 32, 32), vBytesC("challenge", 0, 0), "bbbbbbbb")
		vAssert(!vBytesEq(got, base), "attester-separates-clients")
		vReach("other-client")
	} else {
		indexKey2 := vBytes("index_key2", 48, 48)
		vAssume(indexKey2[0] != 0 && !vBytesEq(indexKey2, indexKey))
		other, _ := c08Spec(secret, indexKey2)
		vAssert(!vBytesEq(other, base), "distinct-index-keys-distinct-ids")
		issuer := c08Issuer(indexKey2)
		blind := vBytes("blind", 48, 48)
		vAssume(blind[0] != 0)
		got := c08Run(issuer, secret, blind, vBytes("nonce", 32, 32), vBytesC("challenge", 0, 0), "bbbbbbbb")
		vAssert(!vBytesEq(got, base), "attester-separates-origins")
		vReach("other-origin")
	}
}

// one attester, one client, two origins with different index keys but the same anonymous origin
// id: each origin gets the ID prescribed for it
func VerifC08_index_per_origin_on_one_attester() {
	vUnwind(110)
	vUseModels("ecapi")
	secret := vBytes("client_secret", 48, 48)
	vAssume(secret[0] != 0)
	keyA, keyB := vBytes("index_key_a", 48, 48), vBytes("index_key_b", 48, 48)
	vAssume(keyA[0] != 0 && keyB[0] != 0 && !vBytesEq(keyA, keyB))
	wantA, _ := c08Spec(secret, keyA)
	wantB, _ := c08Spec(secret, keyB)
	cache := &c06Cache{m: map[string]*ClientState{}}
	attester := NewRateLimitedAttester(cache)
	anon := []byte("aaaaaaaa")
	run := func(indexKey, blind []byte, tag string) []byte {
		issuer := c08Issuer(indexKey)
		client := NewRateLimitedClientFromSecret(secret)
		st, err := client.CreateTokenRequest(vBytesC("challenge"+tag, 0, 0), vBytes("nonce"+tag, 32, 32), blind, issuer.TokenKeyID(), issuer.TokenKey(), "a", issuer.NameKey())
		vAssume(err == nil)
		_, brk, err := issuer.Evaluate(st.Request().Marshal())
		vAssume(err == nil)
		vAssume(attester.VerifyRequest(*st.Request(), blind, st.ClientKey(), anon) == nil)
		idx, err := attester.FinalizeIndex(st.ClientKey(), blind, brk, anon)
		vAssert(err == nil, "index-computed"+tag)
		return idx
	}
	b1, b2 := vBytes("blind_a", 48, 48), vBytes("blind_b", 48, 48)
	vAssume(b1[0] != 0 && b2[0] != 0)
	gotA := run(keyA, b1, "_a")
	vAssert(vBytesEq(gotA, wantA), "first-origin-gets-its-id")
	gotB := run(keyB, b2, "_b")
	vAssert(vBytesEq(gotB, wantB), "second-origin-gets-its-own-id")
	// an id the caller still holds is not changed by later calls (no shared result buffer)
	vAssert(vBytesEq(gotA, wantA), "first-id-still-intact-after-second-call")
	vReach("two-origins")
}

// two origins registered on ONE issuer with their own index keys, under names that differ in
// anything at all (a trailing dot, case, one byte): a request for the second one is answered with
// the second one's index key, i.e. the attester derives the formula's value for that key
func VerifC08_two_origins_on_one_issuer() {
	vUnwind(110)
	vUseModels("ecapi")
	secret := vBytes("client_secret", 48, 48)
	vAssume(secret[0] != 0)
	keyA, keyB := vBytes("index_key_a", 48, 48), vBytes("index_key_b", 48, 48)
	vAssume(keyA[0] != 0 && keyB[0] != 0 && !vBytesEq(keyA, keyB))
	nameA := vBytesC("origin_a", 1, 2)
	vAssume(nameA[len(nameA)-1] != 0)
	var nameB []byte
	if vBool("b_is_a_plus_one_byte") {
		nameB = append(append([]byte{}, nameA...), vByte("suffix"))
		vAssume(nameB[len(nameB)-1] != 0)
	} else {
		nameB = vBytesC("origin_b", 1, 2)
		vAssume(nameB[len(nameB)-1] != 0 && !vBytesEq(nameA, nameB))
	}
	issuer := t3Issuer()
	ka, err := ecdsa.CreateKey(elliptic.P384(), keyA)
	vAssume(err == nil)
	kb, err := ecdsa.CreateKey(elliptic.P384(), keyB)
	vAssume(err == nil)
	vAssume(issuer.AddOriginWithIndexKey(string(nameA), ka) == nil)
	vAssume(issuer.AddOriginWithIndexKey(string(nameB), kb) == nil)
	want, _ := c08Spec(secret, keyB)

	blind := vBytes("blind", 48, 48)
	vAssume(blind[0] != 0)
	client := NewRateLimitedClientFromSecret(secret)
	st, err := client.CreateTokenRequest(vBytesC("challenge", 0, 0), vBytes("nonce", 32, 32), blind, issuer.TokenKeyID(), issuer.TokenKey(), string(nameB), issuer.NameKey())
	vAssume(err == nil)
	_, brk, err := issuer.Evaluate(st.Request().Marshal())
	vAssert(err == nil, "second-origin-served")
	if err != nil {
		return
	}
	cache := &c06Cache{m: map[string]*ClientState{}}
	attester := NewRateLimitedAttester(cache)
	anon := []byte("aaaaaaaa")
	vAssume(attester.VerifyRequest(*st.Request(), blind, st.ClientKey(), anon) == nil)
	idx, err := attester.FinalizeIndex(st.ClientKey(), blind, brk, anon)
	vAssert(err == nil, "index-computed")
	vAssert(vBytesEq(idx, want), "second-origin-gets-the-id-of-its-own-index-key")
	vReach("two-origins-one-issuer")
}
