package type3

// C09: attester origin bookkeeping stays one-to-one. One step from a parametrised pre-state
// (every combination of the bindings the step can look at, plus unrelated entries), which by
// induction covers request histories of any length; every pre-state used here is reachable
// (bindings are left behind by accepted and by rejected calls alike).

func c09State() *ClientState {
	return &ClientState{originIndices: map[string]string{}, clientIndices: map[string]string{}, originCounts: map[string]int{}}
}

func VerifC09_finalize_step() {
	vUnwind(110)
	vUseModels("ecapi")
	issuer, st, wire := c07Honest("a", "a")
	_, brk, err := issuer.Evaluate(wire)
	vAssume(err == nil)
	clientKey := st.ClientKey()
	anon := vBytesC("anon", 0, vBound("C09_anon_len", 2, 9)) // anonymous origin ids of any length, including the empty one
	anonHex := hexOf(anon)

	// the index this call will compute, obtained from a throw-away attester
	probeCache := &c06Cache{m: map[string]*ClientState{}}
	probeCache.m[hexOf(clientKey)] = c09State()
	idx, err := NewRateLimitedAttester(probeCache).FinalizeIndex(clientKey, t3LastBlind, brk, anon)
	vAssume(err == nil)
	idxHex := hexOf(idx)

	cache := &c06Cache{m: map[string]*ClientState{}}
	attester := NewRateLimitedAttester(cache)
	state := c09State()
	other := c09State() // another client's state
	otherKey := vBytes("other_client", 49, 49)
	vAssume(!vBytesEq(otherKey, clientKey))
	other.clientIndices[idxHex] = "ffffffffffffffff"
	cache.m[hexOf(otherKey)] = other
	known := vBool("client_known")
	if known {
		cache.m[hexOf(clientKey)] = state
	}
	// pre-state of this client
	anon2Hex := hexOf(vBytesC("anon2", 0, vBound("C09_anon_len", 2, 9)))
	vAssume(anon2Hex != anonHex)
	binding := vSplit(vInt("index_binding", 0, 2), 0, 2) // 0 unbound, 1 bound to this anon id, 2 bound to another
	switch binding {
	case 1:
		state.clientIndices[idxHex] = anonHex
	case 2:
		state.clientIndices[idxHex] = anon2Hex
	}
	idx2Hex := hexOf(vBytes("idx2", 48, 48))
	vAssume(idx2Hex != idxHex)
	switch vSplit(vInt("origin_entry", 0, 2), 0, 2) { // what an earlier (accepted or rejected) call left behind
	case 1:
		state.originIndices[anonHex] = idxHex
	case 2:
		state.originIndices[anonHex] = idx2Hex
	}
	// an unrelated binding
	state.clientIndices[idx2Hex] = anon2Hex

	got, ferr := attester.FinalizeIndex(clientKey, t3LastBlind, brk, anon)

	if !known {
		vAssert(ferr != nil, "unverified-client-refused")
		vReach("unknown-client")
	} else {
		switch binding {
		case 0:
			vAssert(ferr == nil, "unbound-index-accepted")
			vAssert(state.clientIndices[idxHex] == anonHex, "binding-recorded")
			vReach("new-binding")
		case 1:
			vAssert(ferr == nil, "repeat-of-accepted-pair-accepted")
			vAssert(state.clientIndices[idxHex] == anonHex, "binding-kept")
			vReach("repeat")
		case 2:
			vAssert(ferr != nil, "second-origin-id-for-bound-index-rejected")
			vAssert(state.clientIndices[idxHex] == anon2Hex, "rejected-call-keeps-binding")
			vReach("collision")
		}
		if ferr == nil {
			vAssert(vBytesEq(got, idx), "returns-the-index")
		}
	}
	// frame: unrelated bindings and other clients are untouched
	vAssert(state.clientIndices[idx2Hex] == anon2Hex, "unrelated-binding-untouched")
	vAssert(len(state.clientIndices) <= 2, "no-other-binding-created")
	vAssert(other.clientIndices[idxHex] == "ffffffffffffffff", "other-client-untouched")
	vAssert(len(other.clientIndices) == 1, "other-client-gets-no-binding")
	o2, ok2 := cache.Get(hexOf(otherKey))
	vAssert(ok2 && o2 == other, "other-client-state-not-replaced")
}

// VerifyRequest never replaces or alters the state of a client it already knows
func VerifC09_verify_step() {
	vUnwind(110)
	vUseModels("ecapi")
	_, st, _ := c07Honest("a", "a")
	clientKey := st.ClientKey()
	cache := &c06Cache{m: map[string]*ClientState{}}
	attester := NewRateLimitedAttester(cache)
	state := c09State()
	state.clientIndices["aa"] = "bb"
	state.originIndices["bb"] = "aa"
	known := vBool("client_known")
	if known {
		cache.m[hexOf(clientKey)] = state
	}
	err := attester.VerifyRequest(*st.Request(), t3LastBlind, clientKey, vBytes("anon", 8, 8))
	vAssert(err == nil, "honest-request-accepted")
	got, ok := cache.Get(hexOf(clientKey))
	vAssert(ok, "client-known-afterwards")
	if known {
		vAssert(got == state, "existing-state-not-replaced")
		vAssert(cache.puts == 0, "no-put-for-known-client")
		vAssert(len(state.clientIndices) == 1 && state.clientIndices["aa"] == "bb", "bindings-untouched")
		vReach("known")
	} else {
		vAssert(cache.puts == 1, "one-put-for-new-client")
		vAssert(got != nil && len(got.clientIndices) == 0 && len(got.originIndices) == 0, "fresh-state-is-empty")
		vAssert(got.clientIndices != nil && got.originIndices != nil, "fresh-maps-allocated")
		vReach("new")
	}
}

// a concrete interleaving on top of the inductive step: client A is bound, a new client B is
// verified, A comes back. A's binding still holds (a second anonymous origin id for its bound
// index is refused, the first one is accepted again) and B's state is its own.
func VerifC09_interleaved_clients() {
	vUnwind(110)
	vUseModels("ecapi")
	issuer := t3Issuer("a")
	cache := &c06Cache{m: map[string]*ClientState{}}
	attester := NewRateLimitedAttester(cache)
	secretA, secretB := vBytes("client_secret_a", 48, 48), vBytes("client_secret_b", 48, 48)
	vAssume(secretA[0] != 0 && secretB[0] != 0 && !vBytesEq(secretA, secretB))
	anonX, anonY := vBytes("anon_x", 8, 8), vBytes("anon_y", 8, 8)
	vAssume(!vBytesEq(anonX, anonY))
	step := func(secret []byte, tag string, anon []byte) ([]byte, error) {
		blind := vBytes("blind"+tag, 48, 48)
		vAssume(blind[0] != 0)
		st, err := NewRateLimitedClientFromSecret(secret).CreateTokenRequest(vBytesC("challenge"+tag, 0, 0), vBytes("nonce"+tag, 32, 32), blind, issuer.TokenKeyID(), issuer.TokenKey(), "a", issuer.NameKey())
		vAssume(err == nil)
		_, brk, err := issuer.Evaluate(st.Request().Marshal())
		vAssume(err == nil)
		vAssert(attester.VerifyRequest(*st.Request(), blind, st.ClientKey(), anon) == nil, "honest-request-accepted"+tag)
		return attester.FinalizeIndex(st.ClientKey(), blind, brk, anon)
	}
	idxA, err := step(secretA, "_a1", anonX)
	vAssert(err == nil, "first-pair-of-a-accepted")
	_, err = step(secretB, "_b1", anonY)
	vAssert(err == nil, "first-pair-of-b-accepted")
	_, err = step(secretA, "_a2", anonY)
	vAssert(err != nil, "second-anonymous-origin-id-for-a-refused-after-b-was-seen")
	idxA3, err := step(secretA, "_a3", anonX)
	vAssert(err == nil, "a-s-own-pair-accepted-again")
	if err == nil {
		vAssert(vBytesEq(idxA3, idxA), "a-s-id-unchanged")
	}
	_, err = step(secretB, "_b2", anonX)
	vAssert(err != nil, "second-anonymous-origin-id-for-b-refused")
	vReach("interleaved")
}
