package type3

// C16 (type 3): protocol steps do not write to caller-visible memory; requests and encodings
// handed out earlier keep their contents across later calls.

func VerifC16_type3_issuer_keeps_request_bytes() {
	vUnwind(40)
	vUseModels("ecapi")
	issuer, _, wire := c07Honest("a", "a")
	snap := append([]byte{}, wire...)
	r1, k1, err := issuer.Evaluate(wire)
	vAssert(err == nil, "first-evaluation-served")
	vAssert(vBytesEq(wire, snap), "encoded-request-unchanged-by-evaluate")
	// a second evaluation of the same bytes is served as well
	_, k2, err2 := issuer.Evaluate(wire)
	vAssert(err2 == nil, "second-evaluation-served")
	vAssert(vBytesEq(wire, snap), "encoded-request-unchanged-by-second-evaluate")
	if err == nil && err2 == nil {
		vAssert(vBytesEq(k1, k2), "blinded-request-key-reproducible")
	}
	_ = r1
	vReach("evaluated-twice")
}

func VerifC16_type3_client_keeps_request() {
	vUnwind(40)
	vUseModels("ecapi")
	issuer, st, wire := c07Honest("a", "a")
	req := st.Request()
	ct := append([]byte{}, req.EncryptedTokenRequest...)
	rk := append([]byte{}, req.RequestKey...)
	sig := append([]byte{}, req.Signature...)
	enc := req.Marshal()
	encSnap := append([]byte{}, enc...)
	resp, _, err := issuer.Evaluate(wire)
	vAssume(err == nil)
	respSnap := append([]byte{}, resp...)
	tok, ferr := st.FinalizeToken(resp)
	vAssert(ferr == nil, "finalizes")
	vAssert(vBytesEq(resp, respSnap), "response-unchanged-by-finalize")
	vAssert(vBytesEq(req.EncryptedTokenRequest, ct), "request-ciphertext-unchanged-by-finalize")
	vAssert(vBytesEq(req.RequestKey, rk), "request-key-unchanged-by-finalize")
	vAssert(vBytesEq(req.Signature, sig), "request-signature-unchanged-by-finalize")
	vAssert(vBytesEq(enc, encSnap), "request-encoding-unchanged-by-finalize")
	// the request can still be served and finalised again
	resp2, _, err := issuer.Evaluate(req.Marshal())
	vAssert(err == nil, "request-still-served-after-finalize")
	if err == nil && ferr == nil {
		tok2, err := st.FinalizeToken(resp2)
		vAssert(err == nil, "second-finalize")
		if err == nil {
			vAssert(vBytesEq(tok2.Marshal()[:98], tok.Marshal()[:98]), "same-token-input")
		}
	}
	vReach("finalized")
}
