package type3

// C16 (type 3): protocol steps do not write to caller-visible memory; requests and encodings
// handed out earlier keep their contents across later calls.

func VerifC16_type3_issuer_keeps_request_bytes() {
	vUnwind(40)
	vUseModels("ecapi")
	issuer, _, wire := c07Honest("a", "a")
	snap := append([]byte{}, wire...)
	r1, k1, err := issuer.Evaluate(wire)
	vAssert(err == nil, "first-evaluation-served")
	vAssert(vBytesEq(wire, snap), "encoded-request-unchanged-by-evaluate")
	// a second evaluation of the same bytes is served as well
	_, k2, err2 := issuer.Evaluate(wire)
	vAssert(err2 == nil, "second-evaluation-served")
	vAssert(vBytesEq(wire, snap), "encoded-request-unchanged-by-second-evaluate")
	if err == nil && err2 == nil {
		vAssert(vBytesEq(k1, k2), "blinded-request-key-reproducible")
	}
	_ = r1
	vReach("evaluated-twice")
}

func VerifC16_type3_client_keeps_request() {
	vUnwind(40)
	vUseModels("ecapi")
	issuer, st, wire := c07Honest("a", "a")
	req := st.Request()
	ct := append([]byte{}, req.EncryptedTokenRequest...)
	rk := append([]byte{}, req.RequestKey...)
	sig := append([]byte{}, req.Signature...)
	enc := req.Marshal()
	encSnap := append([]byte{}, enc...)
	resp, _, err := issuer.Evaluate(wire)
	vAssume(err == nil)
	respSnap := append([]byte{}, resp...)
	tok, ferr := st.FinalizeToken(resp)
	vAssert(ferr == nil, "finalizes")
	vAssert(vBytesEq(resp, respSnap), "response-unchanged-by-finalize")
	vAssert(vBytesEq(req.EncryptedTokenRequest, ct), "request-ciphertext-unchanged-by-finalize")
	vAssert(vBytesEq(req.RequestKey, rk), "request-key-unchanged-by-finalize")
	vAssert(vBytesEq(req.Signature, sig), "request-signature-unchanged-by-finalize")
	vAssert(vBytesEq(enc, encSnap), "request-encoding-unchanged-by-finalize")
	// the request can still be served and finalised again
	resp2, _, err := issuer.Evaluate(req.Marshal())
	vAssert(err == nil, "request-still-served-after-finalize")
	if err == nil && ferr == nil {
		tok2, err := st.FinalizeToken(resp2)
		vAssert(err == nil, "second-finalize")
		if err == nil {
			vAssert(vBytesEq(tok2.Marshal()[:98], tok.Marshal()[:98]), "same-token-input")
		}
	}
	vReach("finalized")
}

// C16 (request objects): see the type-1 harness of the same name
func VerifC16_type3_request_encoding_survives_reuse() {
	vUnwind(6)
	mk := func(tag string) *RateLimitedTokenRequest {
		return &RateLimitedTokenRequest{
			RequestKey:            vBytes("rk"+tag, 49, 49),
			NameKeyID:             vBytes("nk"+tag, 32, 32),
			EncryptedTokenRequest: vBytesC("ct"+tag, 1, 3),
			Signature:             vBytes("sig"+tag, 96, 96),
		}
	}
	r := mk("1")
	first := r.Marshal()
	snap := append([]byte{}, first...)
	wire := append([]byte{}, mk("2").Marshal()...)
	wireSnap := append([]byte{}, wire...)
	vAssert(r.Unmarshal(wire), "decodes-into-used-object")
	second := r.Marshal()
	vAssert(vBytesEq(first, snap), "earlier-encoding-unchanged")
	vAssert(vBytesEq(wire, wireSnap), "input-unchanged")
	vAssert(vBytesEq(second, wireSnap), "re-encodes-the-new-value")
	wire[0] ^= 0x01
	wire[len(wire)-1] ^= 0x5a
	vAssert(vBytesEq(r.Marshal(), wireSnap), "encoding-independent-of-input-buffer")
	vAssert(vBytesEq(first, snap), "earlier-encoding-still-unchanged")
	vReach("reused")
}
