package type3

// C17 (type 3): shared issuer.
func VerifC17_type3_issuer() {
	vUnwind(40)
	vUseModels("ecapi")
	issuer, _, wire := c07Honest("a", "a")
	op := vSplit(vInt("op", 0, 5), 0, 5)
	vConcurrently(func() {
		switch op {
		case 0:
			_ = issuer.TokenKey()
		case 1:
			_ = issuer.TokenKeyID()
		case 2:
			_ = issuer.Type()
		case 3:
			_ = issuer.NameKey()
		case 4:
			_ = issuer.OriginIndexKey("a")
		case 5:
			req := append([]byte{}, wire...)
			_, _, _ = issuer.Evaluate(req)
		}
	})
	vSharedEnd()
	vReach("called")
}
