package type3

import (
	"crypto/sha256"

	"github.com/cloudflare/pat-go/util"
)

// C18 (type 3): token key id = SHA-256(RSASSA-PSS SPKI); the request carries SHA-256 of the
// serialized name key, whose serialization is id || kem || public key || kdf || aead.
func VerifC18_type3_key_ids() {
	vUnwind(40)
	vUseModels("ecapi")
	issuer, st, wire := c07Honest("a", "a")
	enc, err := util.MarshalTokenKeyPSSOID(issuer.TokenKey())
	vAssume(err == nil)
	want := sha256.Sum256(enc)
	vAssert(vBytesEq(issuer.TokenKeyID(), want[:]), "token-key-id-is-sha256-of-serialized-public-key")

	nk := issuer.NameKey()
	ser := nk.Marshal()
	pk := nk.suite.KEM.SerializePublicKey(nk.publicKey)
	vAssert(len(ser) == 1+2+32+2+2, "name-key-length")
	vAssert(ser[0] == nk.id, "name-key-id-byte")
	vAssert(ser[1] == 0x00 && ser[2] == 0x20, "kem-x25519")
	vAssert(vBytesEq(ser[3:35], pk), "name-key-public-key")
	vAssert(ser[35] == 0x00 && ser[36] == 0x01, "kdf-hkdf-sha256")
	vAssert(ser[37] == 0x00 && ser[38] == 0x01, "aead-aes128gcm")
	nid := sha256.Sum256(ser)
	vAssert(vBytesEq(st.Request().NameKeyID, nid[:]), "request-carries-sha256-of-serialized-name-key")
	vAssert(vBytesEq(wire[51:83], nid[:]), "wire-carries-sha256-of-serialized-name-key")
	// decoding the serialized name key gives it back
	dec, err := UnmarshalEncapKey(ser)
	vAssert(err == nil, "name-key-decodes")
	if err == nil {
		vAssert(vBytesEq(dec.Marshal(), ser), "name-key-roundtrip")
	}
	vReach("key-ids")
}

// a name key with any suite the decoder accepts: the request carries SHA-256 of its serialization
func VerifC18_type3_name_key_id_any_suite() {
	vUnwind(40)
	vUseModels("ecapi")
	issuer := t3Issuer("a")
	ser := issuer.NameKey().Marshal()
	// same public key, arbitrary key id byte, KDF and AEAD identifiers
	alt := append([]byte{}, ser...)
	alt[0] = vByte("key_id")
	alt[36] = byte(vInt("kdf", 1, 3))
	alt[38] = byte(vInt("aead", 1, 3))
	nk, err := UnmarshalEncapKey(alt)
	vAssume(err == nil)
	vAssert(vBytesEq(nk.Marshal(), alt), "name-key-serialization-is-its-encoding")
	secret := vBytes("client_secret", 48, 48)
	vAssume(secret[0] != 0)
	blind := vBytes("blind", 48, 48)
	vAssume(blind[0] != 0)
	st, err := NewRateLimitedClientFromSecret(secret).CreateTokenRequest(vBytesC("challenge", 0, 0), vBytes("nonce", 32, 32), blind, issuer.TokenKeyID(), issuer.TokenKey(), "a", nk)
	vAssume(err == nil)
	want := sha256.Sum256(alt)
	vAssert(vBytesEq(st.Request().NameKeyID, want[:]), "request-carries-sha256-of-serialized-name-key")
	vReach("any-suite")
}
