package type3

import (
	"crypto/sha256"

	"github.com/cloudflare/pat-go/util"
)

// C18 (type 3): token key id = SHA-256(RSASSA-PSS SPKI); the request carries SHA-256 of the
// serialized name key, whose serialization is id || kem || public key || kdf || aead.
func VerifC18_type3_key_ids() {
	vUnwind(40)
	vUseModels("ecapi")
	issuer, st, wire := c07Honest("a", "a")
	enc, err := util.MarshalTokenKeyPSSOID(issuer.TokenKey())
	vAssume(err == nil)
	want := sha256.Sum256(enc)
	vAssert(vBytesEq(issuer.TokenKeyID(), want[:]), "token-key-id-is-sha256-of-serialized-public-key")

	nk := issuer.NameKey()
	ser := nk.Marshal()
	pk := nk.suite.KEM.SerializePublicKey(nk.publicKey)
	vAssert(len(ser) == 1+2+32+2+2, "name-key-length")
	vAssert(ser[0] == nk.id, "name-key-id-byte")
	vAssert(ser[1] == 0x00 && ser[2] == 0x20, "kem-x25519")
	vAssert(vBytesEq(ser[3:35], pk), "name-key-public-key")
	vAssert(ser[35] == 0x00 && ser[36] == 0x01, "kdf-hkdf-sha256")
	vAssert(ser[37] == 0x00 && ser[38] == 0x01, "aead-aes128gcm")
	nid := sha256.Sum256(ser)
	vAssert(vBytesEq(st.Request().NameKeyID, nid[:]), "request-carries-sha256-of-serialized-name-key")
	vAssert(vBytesEq(wire[51:83], nid[:]), "wire-carries-sha256-of-serialized-name-key")
	// decoding the serialized name key gives it back
	dec, err := UnmarshalEncapKey(ser)
	vAssert(err == nil, "name-key-decodes")
	if err == nil {
		vAssert(vBytesEq(dec.Marshal(), ser), "name-key-roundtrip")
	}
	vReach("key-ids")
}
