package type3

// C20: origin names are recovered exactly; their length leaks only in 32-byte buckets.

func specPaddedLen(n int) int {
	blocks := (n + 31) / 32
	if blocks < 1 {
		blocks = 1
	}
	return 32 * blocks
}

// padding arithmetic for every name length the 16-bit prefix can carry
func VerifC20_pad_arith() {
	vUnwind(4)
	name := vBytes("name", 0, 65503)
	n := len(name)
	padded := padOriginName(string(name))
	vAssert(len(padded) == specPaddedLen(n), "padded-length-is-32-times-blocks")
	vAssert(len(padded)%32 == 0 && len(padded) >= 32, "whole-blocks-at-least-one")
	vAssert(len(padded) >= n && len(padded)-n <= 32, "at-most-one-block-of-padding")
	vReach("arith")
}

// unpad inverts pad for every name that does not end in a zero byte
func VerifC20_pad_roundtrip() {
	vUnwind(36)
	name := vBytes("name", 0, vBound("C20_name_len", 200, 1000))
	vAssume(len(name) == 0 || name[len(name)-1] != 0)
	padded := padOriginName(string(name))
	back := unpadOriginName(padded)
	vAssert(len(back) == len(name), "recovered-length")
	vAssert(vBytesEq([]byte(back), name), "recovered-name")
	// the padding is all zero and the name is a prefix
	k := vInt("k", 0, 65535)
	if k < len(padded) {
		if k < len(name) {
			vAssert(padded[k] == name[k], "name-is-prefix")
		} else {
			vAssert(padded[k] == 0, "padding-is-zero")
		}
	}
	vReach("roundtrip")
}

// the request on the wire has a length that depends on the number of blocks only, and the issuer
// serves exactly the registered name
func VerifC20_wire_and_lookup() {
	vUnwind(40)
	vUseModels("ecapi")
	hi := vBound("C20_origin_hi", 34, 70)
	origin := vBytesC("origin", 0, hi)
	vAssume(len(origin) == 0 || origin[len(origin)-1] != 0)
	issuer := t3Issuer(string(origin))
	secret := vBytes("client_secret", 48, 48)
	vAssume(secret[0] != 0)
	blind := vBytes("blind", 48, 48)
	vAssume(blind[0] != 0)
	st, err := NewRateLimitedClientFromSecret(secret).CreateTokenRequest(vBytesC("challenge", 0, 0), vBytes("nonce", 32, 32), blind, issuer.TokenKeyID(), issuer.TokenKey(), string(origin), issuer.NameKey())
	vAssume(err == nil)
	wire := st.Request().Marshal()
	inner := 1 + 256 + 2 + specPaddedLen(len(origin))
	vAssert(len(wire) == 2+49+32+2+(32+inner+16)+96, "wire-length-depends-on-block-count-only")
	_, _, eerr := issuer.Evaluate(wire)
	vAssert(eerr == nil, "registered-origin-served")
	vReach("served")
}

// names that differ in any way (last byte, interior zero bytes, padding-like tails) are kept apart
func VerifC20_lookup_exact() {
	vUnwind(40)
	vUseModels("ecapi")
	m := vBound("C20_lookup_len", 3, 4)
	name := vBytesC("origin", 0, m)
	reg := vBytesC("registered", 0, m)
	vAssume(len(name) == 0 || name[len(name)-1] != 0)
	vAssume(len(reg) == 0 || reg[len(reg)-1] != 0)
	same := vBytesEq(name, reg)
	issuer := t3Issuer(string(reg))
	secret := vBytes("client_secret", 48, 48)
	vAssume(secret[0] != 0)
	blind := vBytes("blind", 48, 48)
	vAssume(blind[0] != 0)
	st, err := NewRateLimitedClientFromSecret(secret).CreateTokenRequest(vBytesC("challenge", 0, 0), vBytes("nonce", 32, 32), blind, issuer.TokenKeyID(), issuer.TokenKey(), string(name), issuer.NameKey())
	vAssume(err == nil)
	_, _, eerr := issuer.Evaluate(st.Request().Marshal())
	if same {
		vAssert(eerr == nil, "registered-origin-served")
		vReach("served")
	} else {
		vAssert(eerr != nil, "other-name-refused")
		vReach("refused")
	}
}
