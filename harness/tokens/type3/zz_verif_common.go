package type3

import (
	"crypto"
	"crypto/rand"
	"crypto/rsa"
	"crypto/sha512"
)

// shared set-up of the type-3 protocol harnesses

func t3Issuer(origins ...string) *RateLimitedIssuer {
	key, err := rsa.GenerateKey(rand.Reader, 2048)
	vAssume(err == nil)
	issuer := NewRateLimitedIssuer(key)
	vAssume(issuer != nil)
	for _, o := range origins {
		vAssume(issuer.AddOrigin(o) == nil)
	}
	return issuer
}

func t3VerifyToken(pk *rsa.PublicKey, enc []byte) bool {
	if len(enc) != 2+32+32+32+256 {
		return false
	}
	d := sha512.Sum384(enc[:98])
	return rsa.VerifyPSS(pk, crypto.SHA384, d[:], enc[98:], &rsa.PSSOptions{Hash: crypto.SHA384, SaltLength: 48}) == nil
}
