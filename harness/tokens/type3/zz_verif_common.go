package type3

import (
	"encoding/hex"
	"crypto"
	"crypto/rand"
	"crypto/rsa"
	"crypto/sha512"
)

// shared set-up of the type-3 protocol harnesses

func t3Issuer(origins ...string) *RateLimitedIssuer {
	key, err := rsa.GenerateKey(rand.Reader, 2048)
	vAssume(err == nil)
	issuer := NewRateLimitedIssuer(key)
	vAssume(issuer != nil)
	for _, o := range origins {
		vAssume(issuer.AddOrigin(o) == nil)
	}
	return issuer
}

func t3VerifyToken(pk *rsa.PublicKey, enc []byte) bool {
	if len(enc) != 2+32+32+32+256 {
		return false
	}
	d := sha512.Sum384(enc[:98])
	return rsa.VerifyPSS(pk, crypto.SHA384, d[:], enc[98:], &rsa.PSSOptions{Hash: crypto.SHA384, SaltLength: 48}) == nil
}

type c06Cache struct {
	m    map[string]*ClientState
	puts int
}

func (c *c06Cache) Get(id string) (*ClientState, bool) { s, ok := c.m[id]; return s, ok }
func (c *c06Cache) Put(id string, s *ClientState)       { c.m[id] = s; c.puts++ }


func c07Honest(origin string, registered ...string) (*RateLimitedIssuer, RateLimitedTokenRequestState, []byte) {
	issuer := t3Issuer(registered...)
	secret := vBytes("client_secret", 48, 48)
	vAssume(secret[0] != 0)
	client := NewRateLimitedClientFromSecret(secret)
	blind := vBytes("blind", 48, 48)
	vAssume(blind[0] != 0)
	challenge, nonce := vBytesC("challenge", 0, 1), vBytes("nonce", 32, 32)
	t3LastBlind, t3LastSecret, t3LastChallenge, t3LastNonce = blind, secret, challenge, nonce
	st, err := client.CreateTokenRequest(challenge, nonce, blind, issuer.TokenKeyID(), issuer.TokenKey(), origin, issuer.NameKey())
	vAssume(err == nil)
	wire := append([]byte{}, st.Request().Marshal()...)
	return issuer, st, wire
}

// the inputs of the last c07Honest call
var t3LastBlind, t3LastSecret, t3LastChallenge, t3LastNonce []byte

func hexOf(b []byte) string { return hex.EncodeToString(b) }

// C07: the rate-limited issuer signs only authentic, untampered requests.
func c07Rejected(issuer *RateLimitedIssuer, wire []byte) {
	resp, key, err := issuer.Evaluate(wire)
	vAssert(err != nil, "rejected-with-error")
	vAssert(resp == nil, "no-response")
	vAssert(key == nil, "no-blinded-request-key")
}
