package type5

import (
	"crypto/rand"
	"crypto/sha256"

	"github.com/cloudflare/circl/oprf"
)

// C01 (type 5): honest batched issuance, batch sizes 1..n, every message crossing the wire as bytes.
func VerifC01_type5_honest() {
	vUnwind(10)
	key, err := oprf.GenerateKey(oprf.SuiteRistretto255, rand.Reader)
	vAssume(err == nil)
	issuer := NewBatchedPrivateIssuer(key)
	client := NewBatchedPrivateClient()
	challenge := vBytesC("challenge", 0, vBound("C01_challenge5", 8, 70))
	// batch sizes 1..3(4); 2 tokens (64 bytes) already cross the 1 -> 2 byte varint form. The next
	// size class starts at 512 tokens (16384 bytes), which is beyond what this harness can carry
	// (tried: no verdict in 10 minutes); that boundary is covered for the encoder itself by C19.
	n := vSplit(vInt("n", 1, vBound("C01_batch", 3, 4)), 1, 4)
	nonces := make([][]byte, n)
	for i := range nonces {
		nonces[i] = vBytes("nonce", 32, 32)
	}
	keyID := issuer.TokenKeyID()
	st, err := client.CreateTokenRequest(challenge, nonces, keyID, issuer.TokenKey())
	vAssert(err == nil, "create-request")
	if err != nil {
		return
	}
	wire := append([]byte{}, st.Request().Marshal()...)
	req := &BatchedPrivateTokenRequest{}
	ok := req.Unmarshal(wire)
	vAssert(ok, "issuer-decodes-request")
	if !ok {
		return
	}
	resp, err := issuer.Evaluate(req)
	vAssert(err == nil, "issuer-evaluates")
	if err != nil {
		return
	}
	toks, err := st.FinalizeTokens(append([]byte{}, resp...))
	vAssert(err == nil, "client-finalizes")
	if err != nil {
		return
	}
	vAssert(len(toks) == n, "one-token-per-nonce")
	ctx := sha256.Sum256(challenge)
	for i := 0; i < n && i < len(toks); i++ {
		vAssert(issuer.Verify(toks[i]) == nil, "token-verifies")
		enc := toks[i].Marshal()
		vAssert(len(enc) == 2+32+32+32+64, "token-length")
		vAssert(enc[0] == 0x00, "token-type-hi")
		vAssert(enc[1] == 0x05, "token-type-lo")
		vAssert(vBytesEq(enc[2:34], nonces[i]), "token-nonce")
		vAssert(vBytesEq(enc[34:66], ctx[:]), "token-context")
		vAssert(vBytesEq(enc[66:98], keyID), "token-key-id")
		vAssert(len(toks[i].Authenticator) == 64, "authenticator-length")
	}
	vReach("issued")
}
