package type5

import (
	"crypto/rand"

	"github.com/cloudflare/circl/oprf"
)

// C01 (type 5, two runs in flight): one issuer answers two clients before either of them
// finalises; each response, used as handed out (not copied by the caller), still finalises to
// tokens that verify. An issuer that builds its responses in storage it reuses fails this.
func VerifC01_type5_two_outstanding_runs() {
	vUnwind(10)
	key, err := oprf.GenerateKey(oprf.SuiteRistretto255, rand.Reader)
	vAssume(err == nil)
	issuer := NewBatchedPrivateIssuer(key)
	n1 := vSplit(vInt("n1", 1, 2), 1, 2)
	n2 := vSplit(vInt("n2", 1, 2), 1, 2)
	mk := func(n int, tag string) BatchedPrivateTokenRequestState {
		nonces := make([][]byte, n)
		for i := range nonces {
			nonces[i] = vBytes("nonce"+tag, 32, 32)
		}
		st, err := NewBatchedPrivateClient().CreateTokenRequest(vBytesC("challenge"+tag, 0, 1), nonces, issuer.TokenKeyID(), issuer.TokenKey())
		vAssume(err == nil)
		return st
	}
	st1, st2 := mk(n1, "1"), mk(n2, "2")
	resp1, err := issuer.Evaluate(st1.Request())
	vAssert(err == nil, "first-evaluates")
	resp2, err2 := issuer.Evaluate(st2.Request())
	vAssert(err2 == nil, "second-evaluates")
	if err != nil || err2 != nil {
		return
	}
	toks1, err := st1.FinalizeTokens(resp1)
	vAssert(err == nil, "first-run-finalizes-after-second-evaluation")
	toks2, err2 := st2.FinalizeTokens(resp2)
	vAssert(err2 == nil, "second-run-finalizes")
	if err == nil {
		vAssert(len(toks1) == n1, "first-run-token-count")
		for i := range toks1 {
			vAssert(issuer.Verify(toks1[i]) == nil, "first-run-token-verifies")
		}
	}
	if err2 == nil {
		vAssert(len(toks2) == n2, "second-run-token-count")
		for i := range toks2 {
			vAssert(issuer.Verify(toks2[i]) == nil, "second-run-token-verifies")
		}
	}
	vReach("two-runs")
}
