package type5

import (
	"crypto/rand"
	"crypto/sha256"

	"github.com/cloudflare/circl/oprf"
	"github.com/cloudflare/pat-go/quicwire"
)

func c02Setup(n int) (*BatchedPrivateIssuer, BatchedPrivateTokenRequestState, []byte, [][]byte, []byte) {
	key, err := oprf.GenerateKey(oprf.SuiteRistretto255, rand.Reader)
	vAssume(err == nil)
	issuer := NewBatchedPrivateIssuer(key)
	challenge := vBytesC("challenge", 0, 1)
	nonces := make([][]byte, n)
	for i := range nonces {
		nonces[i] = vBytes("nonce", 32, 32)
	}
	keyID := issuer.TokenKeyID()
	st, err := NewBatchedPrivateClient().CreateTokenRequest(challenge, nonces, keyID, issuer.TokenKey())
	vAssume(err == nil)
	return issuer, st, challenge, nonces, keyID
}

// rebuild a response list from elements and proof
func c02Response(elems [][]byte, proof []byte) []byte {
	var body []byte
	for _, e := range elems {
		body = append(body, e...)
	}
	out := quicwire.AppendVarint(nil, uint64(len(body)))
	out = append(out, body...)
	return append(out, proof...)
}

func VerifC02_type5_client_rejects() {
	vUnwind(10)
	n := vSplit(vInt("n", 2, 3), 2, 3)
	issuer, st, _, _, _ := c02Setup(n)
	resp, err := issuer.Evaluate(st.Request())
	vAssume(err == nil)
	// honest layout: 1-byte varint (n*32 <= 63 only for n = 1; for n = 2, 3 it is a 2-byte varint)
	hdr := 2
	vAssume(len(resp) == hdr+32*n+64)
	elems := make([][]byte, n)
	for i := range elems {
		elems[i] = resp[hdr+32*i : hdr+32*(i+1)]
	}
	proof := resp[hdr+32*n:]
	var bad []byte
	switch vSplit(vInt("perturbation", 0, 6), 0, 6) {
	case 0: // single bit flip anywhere
		bad = append([]byte{}, resp...)
		i := vSplit(vInt("byte", 0, len(resp)-1), 0, len(resp)-1)
		bad[i] ^= 1 << uint(vInt("bit", 0, 7))
		vReach("bit-flip")
	case 1: // an element dropped
		bad = c02Response(elems[1:], proof)
		vReach("dropped")
	case 2: // an element duplicated
		dup := append([][]byte{elems[0]}, elems...)
		bad = c02Response(dup, proof)
		vReach("duplicated")
	case 3: // two elements swapped
		vAssume(!vBytesEq(elems[0], elems[1]))
		sw := append([][]byte{}, elems...)
		sw[0], sw[1] = sw[1], sw[0]
		bad = c02Response(sw, proof)
		vReach("reordered")
	case 4: // response computed under another issuer key
		key2, err := oprf.GenerateKey(oprf.SuiteRistretto255, rand.Reader)
		vAssume(err == nil)
		pk1, _ := issuer.TokenKey().MarshalBinary()
		pk2, _ := key2.Public().MarshalBinary()
		vAssume(!vBytesEq(pk1, pk2))
		bad, err = NewBatchedPrivateIssuer(key2).Evaluate(st.Request())
		vAssume(err == nil)
		vReach("other-key")
	case 5: // the honest elements followed by a repetition of the last one
		bad = c02Response(append(append([][]byte{}, elems...), elems[n-1]), proof)
		vReach("surplus-duplicate")
	case 6: // the honest elements followed by an arbitrary one
		bad = c02Response(append(append([][]byte{}, elems...), vBytes("extra_element", 32, 32)), proof)
		vReach("surplus-element")
	}
	_, ferr := st.FinalizeTokens(bad)
	vAssert(ferr != nil, "perturbed-response-rejected")
}

func VerifC02_type5_success_implies_valid() {
	vUnwind(10)
	n := vSplit(vInt("n", 1, 2), 1, 2)
	issuer, st, challenge, nonces, keyID := c02Setup(n)
	var resp []byte
	if vBool("honest") {
		r, err := issuer.Evaluate(st.Request())
		vAssume(err == nil)
		resp = r
	} else {
		resp = vBytes("resp", 0, 2+32*2+64+1)
	}
	toks, err := st.FinalizeTokens(resp)
	if err != nil {
		vReach("rejected")
		return
	}
	vAssert(len(toks) == n, "one-token-per-nonce")
	ctx := sha256.Sum256(challenge)
	for i := 0; i < n && i < len(toks); i++ {
		vAssert(issuer.Verify(toks[i]) == nil, "returned-token-verifies")
		vAssert(toks[i].TokenType == BatchedPrivateTokenType, "own-type")
		vAssert(vBytesEq(toks[i].Nonce, nonces[i]), "own-nonce")
		vAssert(vBytesEq(toks[i].Context, ctx[:]), "own-context")
		vAssert(vBytesEq(toks[i].KeyID, keyID), "own-key-id")
	}
	vReach("accepted")
}

// The caller owns the tokens it was handed: overwriting them must not influence a later
// finalization of the same state (success still implies a valid token bound to this request).
func VerifC02_type5_refinalize_after_token_overwritten() {
	vUnwind(10)
	n := vSplit(vInt("n", 1, 2), 1, 2)
	issuer, st, challenge, nonces, keyID := c02Setup(n)
	resp, err := issuer.Evaluate(st.Request())
	vAssume(err == nil)
	toks, err := st.FinalizeTokens(resp)
	vAssume(err == nil)
	for i := range toks {
		copy(toks[i].Nonce, vBytes("g1", 32, 32))
		copy(toks[i].Context, vBytes("g2", 32, 32))
		copy(toks[i].KeyID, vBytes("g3", 32, 32))
		copy(toks[i].Authenticator, vBytes("g4", 64, 64))
	}
	toks2, err := st.FinalizeTokens(resp)
	if err != nil {
		vReach("rejected")
		return
	}
	ctx := sha256.Sum256(challenge)
	for i := 0; i < n && i < len(toks2); i++ {
		vAssert(issuer.Verify(toks2[i]) == nil, "returned-token-verifies")
		vAssert(vBytesEq(toks2[i].Nonce, nonces[i]), "own-nonce")
		vAssert(vBytesEq(toks2[i].Context, ctx[:]), "own-context")
		vAssert(vBytesEq(toks2[i].KeyID, keyID), "own-key-id")
	}
	vReach("accepted")
}
