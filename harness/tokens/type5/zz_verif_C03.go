package type5

func VerifC03_type5_token() {
	vUnwind(6)
	b := vBytes("b", 0, vBound("C03_t5_token_len", 170, 300))
	vAllocBegin(64*len(b) + 4096)
	_, err := UnmarshalBatchedPrivateToken(b)
	vAllocEnd()
	if err == nil {
		vReach("accepted")
	} else {
		vReach("rejected")
	}
}

func VerifC03_type5_request() {
	n := vBound("C03_t5_req_len", 3+8+32*4, 3+8+32*8)
	vUnwind(n/32 + 3)
	b := vBytes("b", 0, n)
	r := &BatchedPrivateTokenRequest{}
	vAllocBegin(64*len(b) + 4096)
	ok := r.Unmarshal(b)
	if ok {
		_ = r.Marshal()
		vReach("accepted")
	} else {
		vReach("rejected")
	}
	vAllocEnd()
}
