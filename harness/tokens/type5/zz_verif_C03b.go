package type5

import (
	"crypto/rand"

	"github.com/cloudflare/circl/oprf"
)

func VerifC03_type5_finalize() {
	vUnwind(10)
	key, err := oprf.GenerateKey(oprf.SuiteRistretto255, rand.Reader)
	vAssume(err == nil)
	issuer := NewBatchedPrivateIssuer(key)
	n := vSplit(vInt("n", 1, 2), 1, 2)
	nonces := make([][]byte, n)
	for i := range nonces {
		nonces[i] = vBytes("nonce", 32, 32)
	}
	st, err := NewBatchedPrivateClient().CreateTokenRequest(vBytesC("challenge", 0, 1), nonces, issuer.TokenKeyID(), issuer.TokenKey())
	vAssume(err == nil)
	resp := vBytes("resp", 0, vBound("C03_t5_resp_len", 8+32*3+64, 8+32*6+64))
	vAllocBegin(64*len(resp) + 8192)
	_, ferr := st.FinalizeTokens(resp)
	vAllocEnd()
	if ferr == nil {
		vReach("accepted")
	} else {
		vReach("rejected")
	}
}

func VerifC03_type5_evaluate() {
	vUnwind(10)
	key, err := oprf.GenerateKey(oprf.SuiteRistretto255, rand.Reader)
	vAssume(err == nil)
	issuer := NewBatchedPrivateIssuer(key)
	b := vBytes("b", 0, 3+2+32*3)
	req := &BatchedPrivateTokenRequest{}
	if !req.Unmarshal(b) {
		vReach("undecodable")
		return
	}
	vAllocBegin(64*len(b) + 8192)
	_, eerr := issuer.Evaluate(req)
	vAllocEnd()
	if eerr == nil {
		vReach("evaluated")
	} else {
		vReach("refused")
	}
}
