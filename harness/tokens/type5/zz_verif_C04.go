package type5

func VerifC04_type5_request_rt() {
	vUnwind(8)
	n := vSplit(vInt("n", 1, vBound("C04_t5_elems", 3, 5)), 1, 5)
	elems := make([][]byte, n)
	for i := 0; i < n; i++ {
		elems[i] = vBytes("e", 32, 32)
	}
	r := &BatchedPrivateTokenRequest{TokenKeyID: vByte("id"), BlindedReq: elems}
	enc := r.Marshal()
	r2 := &BatchedPrivateTokenRequest{}
	vAssert(r2.Unmarshal(enc), "decode-accepts-encoding")
	vAssert(r2.TokenKeyID == r.TokenKeyID, "rt-key-id")
	vAssert(len(r2.BlindedReq) == n, "rt-count")
	for i := 0; i < n && i < len(r2.BlindedReq); i++ {
		vAssert(vBytesEq(r2.BlindedReq[i], elems[i]), "rt-element")
	}
	vReach("roundtrip")
}

func VerifC04_type5_request_canon() {
	vUnwind(8)
	b := vBytes("b", 0, vBound("C04_t5_req_len", 3+8+32*3, 3+8+32*5))
	r := &BatchedPrivateTokenRequest{}
	if vBool("reused") {
		pn := vSplit(vInt("prev_n", 0, 3), 0, 3)
		prev := make([][]byte, pn)
		for i := 0; i < pn; i++ {
			prev[i] = vBytes("pe", 32, 32)
		}
		r.TokenKeyID = vByte("prev_id")
		r.BlindedReq = prev
		_ = r.Marshal()
	}
	if !r.Unmarshal(b) {
		vReach("rejected")
		return
	}
	enc := r.Marshal()
	vAssert(len(enc) <= len(b), "canonical-no-longer")
	fresh := &BatchedPrivateTokenRequest{TokenKeyID: r.TokenKeyID, BlindedReq: r.BlindedReq}
	vAssert(vBytesEq(enc, fresh.Marshal()), "marshal-after-unmarshal-is-canonical")
	r3 := &BatchedPrivateTokenRequest{}
	vAssert(r3.Unmarshal(enc), "canonical-decodes")
	vAssert(r3.TokenKeyID == r.TokenKeyID, "same-key-id")
	vAssert(len(r3.BlindedReq) == len(r.BlindedReq), "same-count")
	for i := 0; i < len(r.BlindedReq) && i < len(r3.BlindedReq); i++ {
		vAssert(vBytesEq(r3.BlindedReq[i], r.BlindedReq[i]), "same-element")
	}
	vReach("accepted")
}

func VerifC04_type5_request_typesep() {
	vUnwind(8)
	b := vBytes("b", 2, 80)
	vAssume(!(b[0] == 0 && b[1] == 5))
	r := &BatchedPrivateTokenRequest{}
	vAssert(!r.Unmarshal(b), "foreign-type-rejected")
	vReach("checked")
}
