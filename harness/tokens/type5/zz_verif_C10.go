package type5

import (
	"crypto/rand"

	"github.com/cloudflare/circl/oprf"
	"github.com/cloudflare/pat-go/tokens"
)

// C10 (type 5): Verify accepts exactly authenticator == VOPRF(k, type || nonce || context || key_id).

func c10Input(t tokens.Token) []byte {
	in := []byte{byte(t.TokenType >> 8), byte(t.TokenType)}
	in = append(in, t.Nonce...)
	in = append(in, t.Context...)
	in = append(in, t.KeyID...)
	return in
}

func VerifC10_type5_verify_exact() {
	vUnwind(8)
	key, err := oprf.GenerateKey(oprf.SuiteRistretto255, rand.Reader)
	vAssume(err == nil)
	issuer := NewBatchedPrivateIssuer(key)
	lo, hi := vBound("C10_field_lo", 31, 28), vBound("C10_field_hi", 33, 34)
	tok := tokens.Token{TokenType: vU16("type"), Nonce: vBytesC("nonce", lo, hi), Context: vBytesC("ctx", lo, hi), KeyID: vBytesC("keyid", lo, hi)}
	server := oprf.NewVerifiableServer(oprf.SuiteRistretto255, key)
	want, werr := server.FullEvaluate(c10Input(tok))
	vAssume(werr == nil)
	if vBool("honest") {
		// the VOPRF evaluation of exactly the fields carried in the token must be accepted
		tok.Authenticator = want
		vAssert(issuer.Verify(tok) == nil, "accepts-the-voprf-evaluation")
		vReach("accepted")
	} else {
		// and nothing else, whatever its length
		tok.Authenticator = vBytesC("auth", 64-1, 64+1)
		vAssume(!vBytesEq(tok.Authenticator, want))
		vAssert(issuer.Verify(tok) != nil, "rejects-everything-else")
		vReach("rejected")
	}
}

// any token that differs from an issued one in any field, with the same authenticator, is rejected;
// so is the same token under another key
func VerifC10_type5_verify_binding() {
	vUnwind(8)
	key, err := oprf.GenerateKey(oprf.SuiteRistretto255, rand.Reader)
	vAssume(err == nil)
	issuer := NewBatchedPrivateIssuer(key)
	server := oprf.NewVerifiableServer(oprf.SuiteRistretto255, key)
	tok := tokens.Token{TokenType: BatchedPrivateTokenType, Nonce: vBytes("nonce", 32, 32), Context: vBytes("ctx", 32, 32), KeyID: vBytes("keyid", 32, 32)}
	auth, werr := server.FullEvaluate(c10Input(tok))
	vAssume(werr == nil)
	tok.Authenticator = auth
	vAssert(issuer.Verify(tok) == nil, "issued-token-verifies")

	other := tokens.Token{TokenType: vU16("type2"), Nonce: vBytes("nonce2", 32, 32), Context: vBytes("ctx2", 32, 32), KeyID: vBytes("keyid2", 32, 32), Authenticator: auth}
	vAssume(!vBytesEq(c10Input(other), c10Input(tok)))
	vAssert(issuer.Verify(other) != nil, "any-changed-field-is-rejected")

	flipped := tokens.Token{TokenType: tok.TokenType, Nonce: tok.Nonce, Context: tok.Context, KeyID: tok.KeyID, Authenticator: vBytes("auth2", 64, 64)}
	vAssume(!vBytesEq(flipped.Authenticator, auth))
	vAssert(issuer.Verify(flipped) != nil, "any-changed-authenticator-is-rejected")
	// the genuine authenticator followed by anything, or cut short, is not the authenticator
	longer := tokens.Token{TokenType: tok.TokenType, Nonce: tok.Nonce, Context: tok.Context, KeyID: tok.KeyID, Authenticator: append(append([]byte{}, auth...), vBytesC("auth_suffix", 1, 2)...)}
	vAssert(issuer.Verify(longer) != nil, "extended-authenticator-is-rejected")
	shorter := tokens.Token{TokenType: tok.TokenType, Nonce: tok.Nonce, Context: tok.Context, KeyID: tok.KeyID, Authenticator: auth[:len(auth)-vSplit(vInt("auth_cut", 1, 2), 1, 2)]}
	vAssert(issuer.Verify(shorter) != nil, "truncated-authenticator-is-rejected")

	key2, err2 := oprf.GenerateKey(oprf.SuiteRistretto255, rand.Reader)
	vAssume(err2 == nil)
	issuer2 := NewBatchedPrivateIssuer(key2)
	pk1, _ := key.Public().MarshalBinary()
	pk2, _ := key2.Public().MarshalBinary()
	vAssume(!vBytesEq(pk1, pk2))
	// the two key ids may end in the same byte (the value requests carry); natively such a key is searched for
	collide := vBool("same_truncated_key_id")
	if vSymbolic() {
		vAssume((issuer.TokenKeyID()[31] == issuer2.TokenKeyID()[31]) == collide)
	} else {
		for ctr := 0; (issuer.TokenKeyID()[31] == issuer2.TokenKeyID()[31]) != collide; ctr++ {
			key2, err2 = oprf.DeriveKey(oprf.SuiteRistretto255, oprf.VerifiableMode, []byte{byte(ctr), byte(ctr >> 8), 9}, []byte("verif"))
			vAssume(err2 == nil)
			issuer2 = NewBatchedPrivateIssuer(key2)
		}
	}
	vAssert(issuer.Verify(tok) == nil, "issued-token-still-verifies")
	vAssert(issuer2.Verify(tok) != nil, "other-key-rejects")
	// and the other issuer accepts what it issued itself
	server2 := oprf.NewVerifiableServer(oprf.SuiteRistretto255, key2)
	auth2, werr2 := server2.FullEvaluate(c10Input(tok))
	vAssume(werr2 == nil)
	tok2 := tokens.Token{TokenType: tok.TokenType, Nonce: tok.Nonce, Context: tok.Context, KeyID: tok.KeyID, Authenticator: auth2}
	vAssert(issuer2.Verify(tok2) == nil, "other-issuer-accepts-its-own-token")
	vAssert(issuer.Verify(tok2) != nil, "this-issuer-rejects-the-others-token")
	vReach("binding")
}
