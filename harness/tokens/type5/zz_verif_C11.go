package type5

import (
	"crypto/rand"

	"github.com/cloudflare/circl/oprf"
)

func c11Copy(bs [][]byte) [][]byte {
	out := make([][]byte, len(bs))
	for i := range bs {
		out[i] = append([]byte{}, bs[i]...)
	}
	return out
}

// C11 (type 5): fixed blinds make the batch request a pure function of (nonce_i, blind_i); each
// element is the element the same pair produces on its own; tokens do not depend on the blinds.
func VerifC11_type5_fixed_blinds() {
	vUnwind(10)
	key, err := oprf.GenerateKey(oprf.SuiteRistretto255, rand.Reader)
	vAssume(err == nil)
	issuer := NewBatchedPrivateIssuer(key)
	challenge := vBytesC("challenge", 0, 1)
	n := vSplit(vInt("n", 1, vBound("C11_batch", 4, 5)), 1, 5)
	nonces := make([][]byte, n)
	blindsA := make([][]byte, n)
	blindsB := make([][]byte, n)
	for i := 0; i < n; i++ {
		nonces[i] = vBytes("nonce", 32, 32)
		blindsA[i] = vBytes("blindA", 32, 32)
		blindsB[i] = vBytes("blindB", 32, 32)
	}
	keyID := issuer.TokenKeyID()
	a1, err := NewBatchedPrivateClient().CreateTokenRequestWithBlinds(challenge, nonces, keyID, issuer.TokenKey(), blindsA)
	if err != nil {
		vReach("blind-refused")
		return
	}
	a2, err := NewBatchedPrivateClient().CreateTokenRequestWithBlinds(append([]byte{}, challenge...), c11Copy(nonces), append([]byte{}, keyID...), issuer.TokenKey(), c11Copy(blindsA))
	vAssert(err == nil, "second-run-same-outcome")
	if err != nil {
		return
	}
	vAssert(vBytesEq(a1.Request().Marshal(), a2.Request().Marshal()), "request-is-a-function-of-the-arguments")
	// element i is what (nonce_i, blind_i) gives on its own
	for i := 0; i < n; i++ {
		single, err := NewBatchedPrivateClient().CreateTokenRequestWithBlinds(challenge, [][]byte{nonces[i]}, keyID, issuer.TokenKey(), [][]byte{blindsA[i]})
		vAssert(err == nil, "single-request")
		if err == nil {
			vAssert(vBytesEq(a1.Request().BlindedReq[i], single.Request().BlindedReq[0]), "element-determined-by-its-own-nonce-and-blind")
		}
	}
	b1, err := NewBatchedPrivateClient().CreateTokenRequestWithBlinds(challenge, nonces, keyID, issuer.TokenKey(), blindsB)
	if err != nil {
		vReach("second-blind-refused")
		return
	}
	ra, err := issuer.Evaluate(a1.Request())
	vAssume(err == nil)
	rb, err := issuer.Evaluate(b1.Request())
	vAssume(err == nil)
	ta, err := a1.FinalizeTokens(ra)
	vAssert(err == nil, "finalize-a")
	tb, err2 := b1.FinalizeTokens(rb)
	vAssert(err2 == nil, "finalize-b")
	if err == nil && err2 == nil {
		vAssert(len(ta) == n && len(tb) == n, "token-count")
		for i := 0; i < n && i < len(ta) && i < len(tb); i++ {
			vAssert(vBytesEq(ta[i].Marshal(), tb[i].Marshal()), "token-independent-of-blind")
			// and it is the token of nonce i (what the shipped vectors pin down byte for byte)
			vAssert(vBytesEq(ta[i].Nonce, nonces[i]), "token-carries-its-own-nonce")
			vAssert(issuer.Verify(ta[i]) == nil, "token-of-fixed-blind-run-verifies")
		}
		vReach("two-blinds")
	}
}
