package type5

// C16 (request objects): see the type-1 harness of the same name
func VerifC16_type5_request_encoding_survives_reuse() {
	vUnwind(8)
	r := &BatchedPrivateTokenRequest{TokenKeyID: vByte("id"), BlindedReq: [][]byte{vBytes("e1", 32, 32), vBytes("e2", 32, 32)}}
	first := r.Marshal()
	snap := append([]byte{}, first...)
	other := &BatchedPrivateTokenRequest{TokenKeyID: vByte("id2"), BlindedReq: [][]byte{vBytes("f1", 32, 32)}}
	wire := append([]byte{}, other.Marshal()...)
	wireSnap := append([]byte{}, wire...)
	vAssert(r.Unmarshal(wire), "decodes-into-used-object")
	second := r.Marshal()
	vAssert(vBytesEq(first, snap), "earlier-encoding-unchanged")
	vAssert(vBytesEq(wire, wireSnap), "input-unchanged")
	vAssert(vBytesEq(second, wireSnap), "re-encodes-the-new-value")
	wire[0] ^= 0x01
	wire[len(wire)-1] ^= 0x5a
	vAssert(vBytesEq(r.Marshal(), wireSnap), "encoding-independent-of-input-buffer")
	vAssert(vBytesEq(first, snap), "earlier-encoding-still-unchanged")
	vReach("reused")
}
