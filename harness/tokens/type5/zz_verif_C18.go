package type5

import (
	"crypto/rand"
	"crypto/sha256"

	"github.com/cloudflare/circl/oprf"
)

// C18 (type 5): key id = SHA-256(serialized public key); requests carry its last byte.
func VerifC18_type5_key_id() {
	vUnwind(8)
	key, err := oprf.GenerateKey(oprf.SuiteRistretto255, rand.Reader)
	vAssume(err == nil)
	issuer := NewBatchedPrivateIssuer(key)
	enc, err := key.Public().MarshalBinary()
	vAssume(err == nil)
	want := sha256.Sum256(enc)
	vAssert(vBytesEq(issuer.TokenKeyID(), want[:]), "key-id-is-sha256-of-serialized-public-key")
	// any key id handed to the client: the request carries its last byte
	id := vBytesC("key_id", 1, vBound("C18_keyid_len", 33, 40))
	st, err := NewBatchedPrivateClient().CreateTokenRequest(vBytesC("challenge", 0, 0), [][]byte{vBytes("nonce", 32, 32)}, id, issuer.TokenKey())
	vAssume(err == nil)
	vAssert(st.Request().TokenKeyID == id[len(id)-1], "request-carries-last-byte-of-key-id")
	vAssert(st.Request().Marshal()[2] == id[len(id)-1], "wire-carries-last-byte-of-key-id")
	st2, err := NewBatchedPrivateClient().CreateTokenRequestWithBlinds(vBytesC("challenge2", 0, 0), [][]byte{vBytes("nonce2", 32, 32)}, id, issuer.TokenKey(), [][]byte{vBytes("blind", 32, 32)})
	if err == nil {
		vAssert(st2.Request().TokenKeyID == id[len(id)-1], "fixed-blind-request-carries-last-byte-of-key-id")
	}
	vReach("key-id")
}
