package type5

func VerifTV_type5_request() {
	b := vBytes("b", 0, 700)
	r := &BatchedPrivateTokenRequest{}
	ok := r.Unmarshal(b)
	vObserve("ok", ok)
	if ok {
		vObserve("marshal", r.Marshal())
	}
	tok, err := UnmarshalBatchedPrivateToken(b)
	vObserve("token-err", err)
	if err == nil {
		vObserve("token", uint64(tok.TokenType), tok.Nonce, tok.Context, tok.KeyID, tok.Authenticator, tok.Marshal(), tok.AuthenticatorInput())
	}
}
