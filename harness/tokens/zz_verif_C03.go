package tokens

// C03: no peer byte string can crash or exhaust a decoder (tokens package part).

func VerifC03_token_challenge() {
	vUnwind(6)
	vAbstractStrings()
	n := vBound("C03_challenge_len", 48, 300)
	b := vBytes("b", 0, n)
	vAllocBegin(64*len(b) + 4096)
	c, err := UnmarshalTokenChallenge(b)
	vAllocEnd()
	if err == nil {
		vReach("accepted")
		_ = c
	} else {
		vReach("rejected")
	}
}
