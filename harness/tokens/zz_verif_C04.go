package tokens

// C04 (tokens package): TokenChallenge and Token round trips.

func noComma(b []byte) bool {
	for i := 0; i < len(b); i++ {
		if b[i] == ',' {
			return false
		}
	}
	return true
}

func VerifC04_challenge_rt() {
	vUnwind(12)
	m := vBound("C04_field", 4, 8)
	name := vBytesC("issuer", 1, m)
	nonce := vBytesC("nonce", 0, 32)
	o1 := vBytesC("o1", 0, 3)
	o2 := vBytesC("o2", 0, 3)
	vAssume(noComma(o1) && noComma(o2))
	var origins []string
	if vBool("two") {
		origins = []string{string(o1), string(o2)}
	} else {
		vAssume(len(o1) > 0) // [""] and [] share an encoding; not counted against the code
		origins = []string{string(o1)}
	}
	c := TokenChallenge{TokenType: vU16("type"), IssuerName: string(name), RedemptionNonce: nonce, OriginInfo: origins}
	enc := c.Marshal()
	d, err := UnmarshalTokenChallenge(enc)
	vAssert(err == nil, "decode-accepts-encoding")
	vAssert(d.TokenType == c.TokenType, "type")
	vAssert(d.IssuerName == c.IssuerName, "issuer")
	vAssert(vBytesEq(d.RedemptionNonce, nonce), "nonce")
	vAssert(len(d.OriginInfo) == len(origins), "origin-count")
	for i := range origins {
		vAssert(d.OriginInfo[i] == origins[i], "origin")
	}
	vReach("roundtrip")
}

func VerifC04_challenge_canon() {
	vUnwind(14)
	b := vBytesC("b", 0, vBound("C04_challenge_len", 11, 14))
	d, err := UnmarshalTokenChallenge(b)
	if err != nil {
		vReach("rejected")
		return
	}
	enc := d.Marshal()
	vAssert(len(enc) <= len(b), "canonical-no-longer")
	d2, err2 := UnmarshalTokenChallenge(enc)
	vAssert(err2 == nil, "canonical-decodes")
	vAssert(d2.TokenType == d.TokenType, "same-type")
	vAssert(d2.IssuerName == d.IssuerName, "same-issuer")
	vAssert(vBytesEq(d2.RedemptionNonce, d.RedemptionNonce), "same-nonce")
	vAssert(len(d2.OriginInfo) == len(d.OriginInfo), "same-origin-count")
	for i := range d.OriginInfo {
		vAssert(d2.OriginInfo[i] == d.OriginInfo[i], "same-origin")
	}
	vAssert(vBytesEq(d2.Marshal(), enc), "idempotent")
	vReach("accepted")
}

func VerifC04_token_marshal() {
	// Token.Marshal / AuthenticatorInput are the concatenation of the fields, for any field lengths
	vUnwind(6)
	m := vBound("C04_token_field", 4, 7) // lengths are case-split: (m+1)^4 paths
	t := Token{TokenType: vU16("type"), Nonce: vBytesC("nonce", 0, m), Context: vBytesC("ctx", 0, m), KeyID: vBytesC("keyid", 0, m), Authenticator: vBytesC("auth", 0, m)}
	in := t.AuthenticatorInput()
	enc := t.Marshal()
	n1, n2, n3, n4 := len(t.Nonce), len(t.Context), len(t.KeyID), len(t.Authenticator)
	vAssert(len(in) == 2+n1+n2+n3, "input-length")
	vAssert(len(enc) == 2+n1+n2+n3+n4, "encoding-length")
	vAssert(in[0] == byte(t.TokenType>>8), "type-byte-0")
	vAssert(in[1] == byte(t.TokenType), "type-byte-1")
	vAssert(vBytesEq(in[2:2+n1], t.Nonce), "input-nonce")
	vAssert(vBytesEq(in[2+n1:2+n1+n2], t.Context), "input-context")
	vAssert(vBytesEq(in[2+n1+n2:], t.KeyID), "input-keyid")
	vAssert(vBytesEq(enc[:2+n1+n2+n3], in), "encoding-prefix-is-input")
	vAssert(vBytesEq(enc[2+n1+n2+n3:], t.Authenticator), "encoding-authenticator")
	vReach("marshal")
}
