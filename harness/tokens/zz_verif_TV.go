package tokens

func VerifTV_challenge() {
	b := vBytes("b", 0, 300)
	c, err := UnmarshalTokenChallenge(b)
	vObserve("err", err)
	if err == nil {
		vObserve("fields", uint64(c.TokenType), c.IssuerName, c.RedemptionNonce, c.OriginInfo)
		vObserve("marshal", c.Marshal())
	}
}
