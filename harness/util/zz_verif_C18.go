package util

import (
	"crypto/rsa"
	"math/big"
)

// C18 (util): the RSASSA-PSS SubjectPublicKeyInfo wrapper is the DER prescribed by RFC 9578, and
// decoding inverts encoding in both supported forms.

func c18DerLen(n int) []byte {
	switch {
	case n < 0x80:
		return []byte{byte(n)}
	case n < 0x100:
		return []byte{0x81, byte(n)}
	case n < 0x10000:
		return []byte{0x82, byte(n >> 8), byte(n)}
	}
	return []byte{0x83, byte(n >> 16), byte(n >> 8), byte(n)}
}

// RSASSA-PSS AlgorithmIdentifier with SHA-384, MGF1-SHA-384, salt length 48 (RFC 9578 section 8.2.2)
var c18AlgID = []byte{
	0x30, 0x3d, 0x06, 0x09, 0x2a, 0x86, 0x48, 0x86, 0xf7, 0x0d, 0x01, 0x01, 0x0a,
	0x30, 0x30,
	0xa0, 0x0d, 0x30, 0x0b, 0x06, 0x09, 0x60, 0x86, 0x48, 0x01, 0x65, 0x03, 0x04, 0x02, 0x02,
	0xa1, 0x1a, 0x30, 0x18, 0x06, 0x09, 0x2a, 0x86, 0x48, 0x86, 0xf7, 0x0d, 0x01, 0x01, 0x08,
	0x30, 0x0b, 0x06, 0x09, 0x60, 0x86, 0x48, 0x01, 0x65, 0x03, 0x04, 0x02, 0x02,
	0xa2, 0x03, 0x02, 0x01, 0x30,
}

// minimal DER INTEGER of a non-negative big-endian magnitude
func c18DerUint(mag []byte) []byte {
	i := 0
	for i < len(mag) && mag[i] == 0 {
		i++
	}
	m := mag[i:]
	var body []byte
	if len(m) == 0 {
		body = []byte{0}
	} else if m[0]&0x80 != 0 {
		body = append([]byte{0}, m...)
	} else {
		body = m
	}
	return append(append([]byte{0x02}, c18DerLen(len(body))...), body...)
}

func c18Key(nLo, nHi int) (*rsa.PublicKey, []byte, []byte) {
	n := vBytesC("modulus", nLo, nHi)
	vAssume(n[0] != 0) // the modulus as big.Int.Bytes() gives it: no leading zero byte
	eb := vBytesC("exponent", 1, 5) // every positive exponent below 2^40 (rsa.PublicKey.E is an int)
	vAssume(eb[0] != 0)
	e := 0
	for _, b := range eb {
		e = e<<8 | int(b)
	}
	return &rsa.PublicKey{N: new(big.Int).SetBytes(n), E: e}, n, eb
}

func c18Expected(alg, n, eb []byte) []byte {
	inner := append(c18DerUint(n), c18DerUint(eb)...)
	inner = append(append([]byte{0x30}, c18DerLen(len(inner))...), inner...)
	bits := append(append([]byte{0x03}, c18DerLen(len(inner)+1)...), 0x00)
	bits = append(bits, inner...)
	body := append(append([]byte{}, alg...), bits...)
	return append(append([]byte{0x30}, c18DerLen(len(body))...), body...)
}

func VerifC18_spki_pss_template() {
	vUnwind(40)
	hi := vBound("C18_modulus_hi", 16, 300)
	key, n, eb := c18Key(1, hi)
	out, err := MarshalTokenKeyPSSOID(key)
	vAssert(err == nil, "encodes")
	want := c18Expected(c18AlgID, n, eb)
	vAssert(len(out) == len(want), "length")
	vAssert(vBytesEq(out, want), "byte-identical-to-the-prescribed-der")
	vReach("template")
}

func VerifC18_spki_roundtrip() {
	vUnwind(40)
	hi := vBound("C18_modulus_hi_rt", 16, 300)
	key, n, eb := c18Key(1, hi)
	legacy := vBool("legacy")
	enc, err := MarshalTokenKey(key, legacy)
	vAssert(err == nil, "encodes")
	dec, err := UnmarshalTokenKey(enc)
	vAssert(err == nil, "decoder-accepts-the-encoding")
	if err != nil {
		return
	}
	vAssert(vBytesEq(dec.N.Bytes(), n), "modulus-recovered")
	e := 0
	for _, b := range eb {
		e = e<<8 | int(b)
	}
	vAssert(dec.E == e, "exponent-recovered")
	vReach("roundtrip")
}

// arbitrary bytes into the token-key decoder (also part of C03)
func VerifC03_util_unmarshal_token_key() {
	vUnwind(60)
	b := vBytes("b", 0, vBound("C03_tokenkey_len", 20, 30))
	vAllocBegin(64*len(b) + 8192)
	_, err := UnmarshalTokenKey(b)
	vAllocEnd()
	if err == nil {
		vReach("accepted")
	} else {
		vReach("rejected")
	}
}

// the sizes keys actually have (RSA-2048, -3072, -4096, -8192), with arbitrary content
func VerifC18_spki_real_world_sizes() {
	vUnwind(40)
	sizes := []int{256, 384, 512, 1024}
	sz := sizes[vSplit(vInt("size", 0, 3), 0, 3)]
	key, n, eb := c18Key(sz, sz)
	out, err := MarshalTokenKeyPSSOID(key)
	vAssert(err == nil, "encodes")
	if err != nil {
		return
	}
	want := c18Expected(c18AlgID, n, eb)
	vAssert(len(out) == len(want), "length")
	vAssert(vBytesEq(out, want), "byte-identical-to-the-prescribed-der")
	dec, err := UnmarshalTokenKey(out)
	vAssert(err == nil, "decoder-accepts-the-encoding")
	if err == nil {
		vAssert(vBytesEq(dec.N.Bytes(), n), "modulus-recovered")
	}
	vReach("real-world-size")
}
