package util

func VerifTV_token_key() {
	b := vBytes("b", 0, 400)
	k, err := UnmarshalTokenKey(b)
	vObserve("err", err)
	if err == nil {
		vObserve("key", k.N.Bytes(), k.E)
		enc, err := MarshalTokenKeyPSSOID(k)
		vObserve("pss", err, enc)
		enc2, err := MarshalTokenKeyRSAEncryptionOID(k)
		vObserve("legacy", err, enc2)
	}
}
