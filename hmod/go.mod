module hmod

go 1.23.0

require github.com/cloudflare/pat-go v0.0.0

replace github.com/cloudflare/pat-go => /repo
