module hmod

go 1.23.0

require (
	github.com/cloudflare/circl v1.3.7
	github.com/cloudflare/pat-go v0.0.0
)

require (
	github.com/bwesterb/go-ristretto v1.2.3 // indirect
	golang.org/x/crypto v0.35.0 // indirect
	golang.org/x/sys v0.30.0 // indirect
)

replace github.com/cloudflare/pat-go => /repo
