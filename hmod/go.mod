module hmod

go 1.23.0

require (
	github.com/cisco/go-hpke v0.0.0-20210524174249-dd22b38cf960
	github.com/cloudflare/circl v1.3.7
	github.com/cloudflare/pat-go v0.0.0
	golang.org/x/crypto v0.35.0
)

require (
	git.schwanenlied.me/yawning/x448.git v0.0.0-20170617130356-01b048fb03d6 // indirect
	github.com/bwesterb/go-ristretto v1.2.3 // indirect
	github.com/cisco/go-tls-syntax v0.0.0-20200617162716-46b0cfb76b9b // indirect
	golang.org/x/sys v0.30.0 // indirect
)

replace github.com/cloudflare/pat-go => /repo
