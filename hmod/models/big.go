package models

import "math/big"

// math/big model used by the protocol-level harnesses: a *big.Int carries ghost magnitude bytes
// (big-endian, possibly with leading zeros). Only the conversions pat-go uses are modelled.
var (
	bigMag = map[*big.Int][]byte{}
	bigSet = map[*big.Int]bool{}
)

func newBig(mag []byte) *big.Int {
	z := new(big.Int)
	bigMag[z] = mag
	bigSet[z] = true
	return z
}

func BigSetBytes(z *big.Int, b []byte) *big.Int {
	bigMag[z] = clone(b)
	bigSet[z] = true
	return z
}

func stripZeros(b []byte) []byte {
	i := 0
	for i < len(b) && b[i] == 0 {
		i++
	}
	return b[i:]
}

func BigBytes(z *big.Int) []byte {
	if bigOpaque[z] {
		return clone(bigMag[z])
	}
	return clone(stripZeros(bigMag[z]))
}

// FillBytes writes the magnitude right-aligned into buf; panics (as the real one) if it does not fit.
func BigFillBytes(z *big.Int, buf []byte) []byte {
	if len(bigMag[z]) == len(buf) {
		copy(buf, bigMag[z]) // same value, no normalisation needed
		return buf
	}
	m := stripZeros(bigMag[z])
	if len(m) > len(buf) {
		panic("math/big: buffer too small to fit value")
	}
	for i := range buf {
		buf[i] = 0
	}
	copy(buf[len(buf)-len(m):], m)
	return buf
}

func BigSetInt64(z *big.Int, v int64) *big.Int {
	u := uint64(v)
	bigMag[z] = []byte{byte(u >> 56), byte(u >> 48), byte(u >> 40), byte(u >> 32), byte(u >> 24), byte(u >> 16), byte(u >> 8), byte(u)}
	bigSet[z] = true
	return z
}

func BigNewInt(v int64) *big.Int { return BigSetInt64(new(big.Int), v) }

// zero test as one decision (not one per leading byte)
func isZeroMag(m []byte) bool {
	if len(m) == 0 {
		return true
	}
	return vBytesEq(m, make([]byte, len(m)))
}

func BigSign(z *big.Int) int {
	if isZeroMag(bigMag[z]) {
		return 0
	}
	return 1
}

func BigBitLen(z *big.Int) int {
	if bigOpaque[z] {
		return 8 * len(bigMag[z])
	}
	m := stripZeros(bigMag[z])
	if len(m) == 0 {
		return 0
	}
	n := 8 * (len(m) - 1)
	for b := m[0]; b != 0; b >>= 1 {
		n++
	}
	return n
}

// Cmp on magnitudes (non-negative values only): two decisions on the zero-extended values
func BigCmp(x, y *big.Int) int {
	a, b := bigMag[x], bigMag[y]
	if len(a) == 0 && len(b) == 0 {
		return 0
	}
	if vBytesLess(a, b) {
		return -1
	}
	if vBytesLess(b, a) {
		return 1
	}
	return 0
}

func CryptobyteBigOne() *big.Int { return BigNewInt(1) }

// sign handling is minimal: negative values only arise when parsing adversarial DER integers
var bigNegative = map[*big.Int]bool{}

func BigNeg(z, x *big.Int) *big.Int {
	bigMag[z] = bigMag[x]
	bigSet[z] = true
	bigNegative[z] = !bigNegative[x]
	return z
}

// Add is only needed for the two's-complement fix-up of negative DER integers; the magnitude of
// the result is an uninterpreted function of the operands (no claim depends on its value)
func BigAdd(z, x, y *big.Int) *big.Int {
	n := len(bigMag[x])
	if len(bigMag[y]) > n {
		n = len(bigMag[y])
	}
	bigMag[z] = vUFN("big_add", n+1, bigMag[x], bigMag[y])
	bigSet[z] = true
	return z
}
