package models

import "math/big"

// math/big model used by the protocol-level harnesses: a *big.Int carries ghost magnitude bytes
// (big-endian, possibly with leading zeros). Only the conversions pat-go uses are modelled.
var (
	bigMag = map[*big.Int][]byte{}
	bigSet = map[*big.Int]bool{}
)

func newBig(mag []byte) *big.Int {
	z := new(big.Int)
	bigMag[z] = mag
	bigSet[z] = true
	return z
}

func BigSetBytes(z *big.Int, b []byte) *big.Int {
	bigMag[z] = clone(b)
	bigSet[z] = true
	return z
}

func stripZeros(b []byte) []byte {
	i := 0
	for i < len(b) && b[i] == 0 {
		i++
	}
	return b[i:]
}

func BigBytes(z *big.Int) []byte {
	if bigOpaque[z] {
		return clone(bigMag[z])
	}
	return clone(stripZeros(bigMag[z]))
}

// FillBytes writes the magnitude right-aligned into buf; panics (as the real one) if it does not fit.
func BigFillBytes(z *big.Int, buf []byte) []byte {
	if len(bigMag[z]) == len(buf) {
		copy(buf, bigMag[z]) // same value, no normalisation needed
		return buf
	}
	m := stripZeros(bigMag[z])
	if len(m) > len(buf) {
		panic("math/big: buffer too small to fit value")
	}
	for i := range buf {
		buf[i] = 0
	}
	copy(buf[len(buf)-len(m):], m)
	return buf
}

func BigSetInt64(z *big.Int, v int64) *big.Int {
	u := uint64(v)
	bigMag[z] = []byte{byte(u >> 56), byte(u >> 48), byte(u >> 40), byte(u >> 32), byte(u >> 24), byte(u >> 16), byte(u >> 8), byte(u)}
	bigSet[z] = true
	return z
}

func BigNewInt(v int64) *big.Int { return BigSetInt64(new(big.Int), v) }

// zero test as one decision (not one per leading byte)
func isZeroMag(m []byte) bool {
	if !vConcreteLen(m) {
		return len(stripZeros(m)) == 0
	}
	if len(m) == 0 {
		return true
	}
	return vBytesEq(m, make([]byte, len(m)))
}

func BigSign(z *big.Int) int {
	if isZeroMag(bigMag[z]) {
		return 0
	}
	return 1
}

func BigBitLen(z *big.Int) int {
	if bigOpaque[z] {
		return 8 * len(bigMag[z])
	}
	m := stripZeros(bigMag[z])
	if len(m) == 0 {
		return 0
	}
	n := 8 * (len(m) - 1)
	for b := m[0]; b != 0; b >>= 1 {
		n++
	}
	return n
}

// Cmp on magnitudes (non-negative values only): two decisions on the zero-extended values
func BigCmp(x, y *big.Int) int {
	a, b := bigMag[x], bigMag[y]
	if !vConcreteLen(a) || !vConcreteLen(b) {
		return bigCmpBytewise(stripZeros(a), stripZeros(b))
	}
	if len(a) == 0 && len(b) == 0 {
		return 0
	}
	if vBytesLess(a, b) {
		return -1
	}
	if vBytesLess(b, a) {
		return 1
	}
	return 0
}

func bigCmpBytewise(a, b []byte) int {
	if len(a) != len(b) {
		if len(a) < len(b) {
			return -1
		}
		return 1
	}
	for i := range a {
		if a[i] != b[i] {
			if a[i] < b[i] {
				return -1
			}
			return 1
		}
	}
	return 0
}

func CryptobyteBigOne() *big.Int { return BigNewInt(1) }

// sign handling is minimal: negative values only arise when parsing adversarial DER integers
var bigNegative = map[*big.Int]bool{}

func BigNeg(z, x *big.Int) *big.Int {
	bigMag[z] = bigMag[x]
	bigSet[z] = true
	bigNegative[z] = !bigNegative[x]
	return z
}

// Add is only needed for the two's-complement fix-up of negative DER integers; the magnitude of
// the result is an uninterpreted function of the operands (no claim depends on its value)
func BigAdd(z, x, y *big.Int) *big.Int {
	n := len(bigMag[x])
	if len(bigMag[y]) > n {
		n = len(bigMag[y])
	}
	bigMag[z] = vUFN("big_add", n+1, bigMag[x], bigMag[y])
	bigSet[z] = true
	return z
}

// group "edinv": what the real (*Scalar).ModInverse of the Ed25519 fork needs from math/big, so
// that its byte shuffling is executed from source: exact Add, ModInverse modulo l as the same
// involution the abstract scalar model uses, and Bits() (little-endian words of the magnitude).
func BigAddExact(z, x, y *big.Int) *big.Int {
	a, b := bigMag[x], bigMag[y]
	n := len(a)
	if len(b) > n {
		n = len(b)
	}
	n++
	out := make([]byte, n)
	var carry uint16
	for i := 0; i < n; i++ {
		var av, bv uint16
		if i < len(a) {
			av = uint16(a[len(a)-1-i])
		}
		if i < len(b) {
			bv = uint16(b[len(b)-1-i])
		}
		s := av + bv + carry
		out[n-1-i] = byte(s)
		carry = s >> 8
	}
	bigMag[z] = out
	bigSet[z] = true
	return z
}

func EdInvModInverse(z, g, n *big.Int) *big.Int {
	l := []byte{0x10, 0, 0, 0, 0, 0, 0, 0, 0, 0, 0, 0, 0, 0, 0, 0, 0x14, 0xde, 0xf9, 0xde, 0xa2, 0xf7, 0x9c, 0xd6, 0x58, 0x12, 0x63, 0x1a, 0x5c, 0xf5, 0xd3, 0xed}
	if !vBytesEq(stripZeros(bigMag[n]), l) {
		panic("ed model: ModInverse with a modulus other than the group order l")
	}
	if len(bigMag[g]) > 32 {
		panic("ed model: ModInverse of more than 32 bytes")
	}
	if isZeroMag(bigMag[g]) {
		return nil
	}
	le := make([]byte, 32)
	for i := range bigMag[g] {
		le[i] = bigMag[g][len(bigMag[g])-1-i]
	}
	inv := vUF("perm_sc_inv", 32, le)
	vAssume(vBytesEq(vUF("perm_sc_inv", 32, inv), le))
	vAssume(!vBytesEq(inv, make([]byte, 32))) // the inverse of a unit is not zero
	scCanonical(inv)
	be := make([]byte, 32)
	for i := range inv {
		be[31-i] = inv[i]
	}
	bigMag[z] = be
	bigSet[z] = true
	return z
}

func BigBits(z *big.Int) []big.Word {
	m := stripZeros(bigMag[z])
	out := make([]big.Word, (len(m)+7)/8)
	for i := range out {
		var w uint64
		for j := 0; j < 8; j++ {
			idx := len(m) - 1 - (8*i + j)
			if idx >= 0 {
				w |= uint64(m[idx]) << (8 * uint(j))
			}
		}
		out[i] = big.Word(w)
	}
	return out
}
