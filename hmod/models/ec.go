package models

import (
	"crypto/elliptic"
	"io"
	"math/big"

	"github.com/cloudflare/pat-go/ecdsa"
)

// API-level model of the key-blinding ECDSA fork, used only by the tokens/type3 harnesses (group
// "ecapi"). The fork's own code is checked against its laws under C12/C13 (DESIGN.md 3.8); here it
// is replaced by exactly that contract:
//   points        = base point * multiset of blinding factors (at most two), encoded injectively,
//                   with Blind commutative and Unblind removing the same factor
//   factor        = injective function of (minimal big-endian bytes of D, context)
//   signatures    = ideal: Verify(pk, digest, r, s) iff (pk, digest, r, s) was produced by Sign
// A point is identified by the ghost attached to its X coordinate.

type mPoint struct {
	base       []byte
	f1, f2, f3 []byte
	nf         int
}

var (
	ptGhost = map[*big.Int]*mPoint{}
	ptReg   []ptRegEntry
)

type ptRegEntry struct {
	enc []byte
	pt  *mPoint
}

type MCurve struct{}

func EllipticP384() elliptic.Curve { var c interface{} = MCurve{}; return c.(elliptic.Curve) }
func (MCurve) Params() *elliptic.CurveParams {
	return &elliptic.CurveParams{BitSize: 384, Name: "P-384"}
}

func encodePoint(p *mPoint) []byte {
	var enc []byte
	switch p.nf {
	case 0:
		enc = clone(p.base)
	case 1:
		enc = vUF("ec_mul1", 49, p.base, p.f1)
	case 2:
		// not injective in the individual factors (only their product matters); commutative
		enc = vUFN("ec_mul2", 49, p.base, p.f1, p.f2)
		vAssume(vBytesEq(enc, vUFN("ec_mul2", 49, p.base, p.f2, p.f1)))
	default:
		enc = vUFN("ec_mul3", 49, p.base, p.f1, p.f2, p.f3)
	}
	vAssume(vUFBool("ec_valid", enc))
	for i := range ptReg {
		if ptReg[i].pt == p {
			return enc
		}
	}
	ptReg = append(ptReg, ptRegEntry{enc: enc, pt: p})
	return enc
}

func newPointXY(p *mPoint) (*big.Int, *big.Int) {
	x := newBig(nil)
	ptGhost[x] = p
	return x, newBig(nil)
}

func EllipticMarshalCompressed(c elliptic.Curve, x, y *big.Int) []byte {
	return encodePoint(ptGhost[x])
}

func EllipticUnmarshalCompressed(c elliptic.Curve, data []byte) (*big.Int, *big.Int) {
	if len(data) != 49 {
		return nil, nil
	}
	// an encoding that was produced by this model and merely copied around is recognised
	// syntactically; only foreign bytes are compared semantically
	for i := range ptReg {
		if vSameTerm(ptReg[i].enc, data) {
			return newPointXY(ptReg[i].pt)
		}
	}
	for i := range ptReg {
		if vBytesEq(ptReg[i].enc, data) {
			return newPointXY(ptReg[i].pt)
		}
	}
	if !vUFBool("ec_valid", data) {
		return nil, nil
	}
	p := &mPoint{base: clone(data)}
	ptReg = append(ptReg, ptRegEntry{enc: p.base, pt: p})
	return newPointXY(p)
}

func basePointFor(d []byte) *mPoint {
	b := vUF("ec_base", 49, stripZeros(d))
	vAssume(vUFBool("ec_valid", b))
	return &mPoint{base: b}
}

func EcdsaCreateKey(c elliptic.Curve, privateKeyBytes []byte) (*ecdsa.PrivateKey, error) {
	priv := new(ecdsa.PrivateKey)
	priv.PublicKey.Curve = c
	priv.D = newBig(clone(privateKeyBytes))
	priv.PublicKey.X, priv.PublicKey.Y = newPointXY(basePointFor(privateKeyBytes))
	return priv, nil
}

func EcdsaGenerateKey(c elliptic.Curve, rnd io.Reader) (*ecdsa.PrivateKey, error) {
	b := make([]byte, 48)
	if _, err := io.ReadFull(rnd, b); err != nil {
		return nil, err
	}
	vAssume(b[0] != 0)
	return EcdsaCreateKey(c, b)
}

func factorOf(bk *ecdsa.PrivateKey, ctx []byte) []byte {
	return vUF("ec_factor", 48, stripZeros(bigMag[bk.D]), ctx)
}

func blindPoint(p *mPoint, f []byte) *mPoint {
	inv := vUF("ec_finv", 48, f)
	// a factor and its inverse cancel
	if p.nf >= 1 && vBytesEq(p.f1, inv) {
		return &mPoint{base: p.base, f1: p.f2, nf: p.nf - 1}
	}
	if p.nf == 2 && vBytesEq(p.f2, inv) {
		return &mPoint{base: p.base, f1: p.f1, nf: 1}
	}
	switch p.nf {
	case 0:
		return &mPoint{base: p.base, f1: f, nf: 1}
	case 1:
		return &mPoint{base: p.base, f1: p.f1, f2: f, nf: 2}
	case 2:
		return &mPoint{base: p.base, f1: p.f1, f2: p.f2, f3: f, nf: 3}
	}
	panic("ec model: more than three blinding factors")
}

func unblindPoint(p *mPoint, f []byte) *mPoint {
	if p.nf >= 1 && vBytesEq(p.f1, f) {
		return &mPoint{base: p.base, f1: p.f2, nf: p.nf - 1}
	}
	if p.nf == 2 && vBytesEq(p.f2, f) {
		return &mPoint{base: p.base, f1: p.f1, nf: 1}
	}
	return blindPointRaw(p, vUF("ec_finv", 48, f))
}

func blindPointRaw(p *mPoint, f []byte) *mPoint {
	switch p.nf {
	case 0:
		return &mPoint{base: p.base, f1: f, nf: 1}
	case 1:
		return &mPoint{base: p.base, f1: p.f1, f2: f, nf: 2}
	case 2:
		return &mPoint{base: p.base, f1: p.f1, f2: p.f2, f3: f, nf: 3}
	}
	panic("ec model: more than three blinding factors")
}

func EcdsaBlindPublicKeyWithContext(c elliptic.Curve, pk *ecdsa.PublicKey, bk *ecdsa.PrivateKey, ctx []byte) (*ecdsa.PublicKey, error) {
	x, y := newPointXY(blindPoint(ptGhost[pk.X], factorOf(bk, ctx)))
	return &ecdsa.PublicKey{Curve: c, X: x, Y: y}, nil
}

func EcdsaUnblindPublicKeyWithContext(c elliptic.Curve, pk *ecdsa.PublicKey, bk *ecdsa.PrivateKey, ctx []byte) (*ecdsa.PublicKey, error) {
	x, y := newPointXY(unblindPoint(ptGhost[pk.X], factorOf(bk, ctx)))
	return &ecdsa.PublicKey{Curve: c, X: x, Y: y}, nil
}

// ideal signatures
type sigEntry struct {
	pub    []byte
	digest []byte
	r, s   []byte
}

var sigLog []sigEntry

func signAs(rnd io.Reader, pub []byte, digest []byte) (*big.Int, *big.Int, error) {
	// the fork draws entropy first and fails if the reader fails
	ent := make([]byte, 32)
	if _, err := io.ReadFull(rnd, ent); err != nil {
		return nil, nil, err
	}
	r, s := vFresh("ecdsa_r", 48), vFresh("ecdsa_s", 48)
	vAssume(r[0] != 0) // full-width scalars (keeps the byte-level big.Int model free of case splits)
	vAssume(s[0] != 0)
	sigLog = append(sigLog, sigEntry{pub: pub, digest: clone(digest), r: r, s: s})
	return newBig(r), newBig(s), nil
}

func EcdsaBlindKeySignWithContext(rnd io.Reader, skS, skB *ecdsa.PrivateKey, hash, ctx []byte) (*big.Int, *big.Int, error) {
	pub := encodePoint(blindPoint(ptGhost[skS.PublicKey.X], factorOf(skB, ctx)))
	return signAs(rnd, pub, hash)
}

func EcdsaSign(rnd io.Reader, priv *ecdsa.PrivateKey, hash []byte) (*big.Int, *big.Int, error) {
	return signAs(rnd, encodePoint(ptGhost[priv.PublicKey.X]), hash)
}

func fixed48(z *big.Int) ([]byte, bool) {
	m := bigMag[z]
	if len(m) == 48 {
		return m, true
	}
	m = stripZeros(m)
	if len(m) > 48 {
		return nil, false
	}
	out := make([]byte, 48)
	copy(out[48-len(m):], m)
	return out, true
}

func EcdsaVerify(pub *ecdsa.PublicKey, hash []byte, r, s *big.Int) bool {
	rb, ok1 := fixed48(r)
	sb, ok2 := fixed48(s)
	if !ok1 || !ok2 {
		return false
	}
	enc := encodePoint(ptGhost[pub.X])
	for i := range sigLog {
		e := sigLog[i]
		if vSameTerm(e.pub, enc) && vSameTerm(e.digest, hash) && vSameTerm(e.r, rb) && vSameTerm(e.s, sb) {
			return true
		}
	}
	for i := range sigLog {
		e := sigLog[i]
		if vBytesEq(e.pub, enc) {
			if vBytesEq(e.digest, hash) {
				if vBytesEq(e.r, rb) {
					if vBytesEq(e.s, sb) {
						return true
					}
				}
			}
		}
	}
	return false
}
