package models

import (
	"crypto/cipher"
	"crypto/elliptic"
	"io"
	"math/big"

	"github.com/cloudflare/pat-go/ecdsa"

	"github.com/cloudflare/circl/expander"
)

// Models for checking the key-blinding ECDSA fork itself (group "bigalg"): the four NIST curves
// with their real orders, opaque point arithmetic, and opaque modular arithmetic on math/big.
// Values of arithmetic results are uninterpreted functions of the operands; comparisons and
// byte conversions of *given* integers are exact.

func hexBytes(s string) []byte {
	out := make([]byte, len(s)/2)
	for i := range out {
		out[i] = hexNib(s[2*i])<<4 | hexNib(s[2*i+1])
	}
	return out
}

func hexNib(c byte) byte {
	if c >= 'a' {
		return c - 'a' + 10
	}
	return c - '0'
}

type MCurveP struct {
	name string
	bits int
	n    string
}

func (c MCurveP) Params() *elliptic.CurveParams {
	return &elliptic.CurveParams{N: newBig(hexBytes(c.n)), BitSize: c.bits, Name: c.name}
}

func (c MCurveP) byteLen() int { return (c.bits + 7) / 8 }

func newOpaque(mag []byte) *big.Int {
	z := newBig(mag)
	bigOpaque[z] = true
	return z
}

// k*G for given k: an arbitrary point; which scalar it belongs to is remembered
type sbmEntry struct{ k, x, y []byte }

var sbmLog []sbmEntry

func (c MCurveP) ScalarBaseMult(k []byte) (*big.Int, *big.Int) {
	// a function of the scalar bytes (not injective: k and k + n give the same point)
	x, y := newOpaque(vUFN("ec_sbm_x_"+c.name, c.byteLen(), k)), newOpaque(vUFN("ec_sbm_y_"+c.name, c.byteLen(), k))
	sbmLog = append(sbmLog, sbmEntry{k: clone(k), x: bigMag[x], y: bigMag[y]})
	return x, y
}
// Points are tracked as a base point times a multiset of at most three scalar factors (the same
// shape as the Ed25519 model): scalar multiplication is a commutative action of the scalars, and
// multiplying by ModInverse(f, n) of a reduced f removes the factor f again. A product with one
// factor keeps the injective symbol ec_sm_{x,y} (a free action).
type ecPt struct {
	bx, by   []byte
	bxo, byo bool // opaque flags of the base coordinates
	f1, f2   []byte
	f3       []byte
	nf       int
}

type ecRegEntry struct {
	x, y []byte
	pt   *ecPt
}

var ecReg []ecRegEntry

func ecLookup(x, y *big.Int) *ecPt {
	for i := range ecReg {
		if vSameTerm(ecReg[i].x, bigMag[x]) && vSameTerm(ecReg[i].y, bigMag[y]) {
			return ecReg[i].pt
		}
	}
	return &ecPt{bx: bigMag[x], by: bigMag[y], bxo: bigOpaque[x], byo: bigOpaque[y]}
}

func (c MCurveP) isInverse(a, b []byte) bool {
	n := hexBytes(c.n)
	return vSameTerm(a, vUF("perm_big_inv", len(n), padW(b), padW(n))) || vSameTerm(b, vUF("perm_big_inv", len(n), padW(a), padW(n)))
}

func (c MCurveP) ecMul(p *ecPt, k []byte) *ecPt {
	if p.nf >= 1 && c.isInverse(p.f1, k) {
		return &ecPt{bx: p.bx, by: p.by, bxo: p.bxo, byo: p.byo, f1: p.f2, f2: p.f3, nf: p.nf - 1}
	}
	if p.nf >= 2 && c.isInverse(p.f2, k) {
		return &ecPt{bx: p.bx, by: p.by, bxo: p.bxo, byo: p.byo, f1: p.f1, f2: p.f3, nf: p.nf - 1}
	}
	if p.nf >= 3 && c.isInverse(p.f3, k) {
		return &ecPt{bx: p.bx, by: p.by, bxo: p.bxo, byo: p.byo, f1: p.f1, f2: p.f2, nf: 2}
	}
	switch p.nf {
	case 0:
		return &ecPt{bx: p.bx, by: p.by, bxo: p.bxo, byo: p.byo, f1: k, nf: 1}
	case 1:
		return &ecPt{bx: p.bx, by: p.by, bxo: p.bxo, byo: p.byo, f1: p.f1, f2: k, nf: 2}
	case 2:
		return &ecPt{bx: p.bx, by: p.by, bxo: p.bxo, byo: p.byo, f1: p.f1, f2: p.f2, f3: k, nf: 3}
	}
	panic("ec model: more than three factors")
}

func (c MCurveP) ecCoord(p *ecPt, which string) []byte {
	n := c.byteLen()
	switch p.nf {
	case 1:
		return vUF("ec_sm_"+which+"_"+c.name, n, p.bx, p.by, p.f1)
	case 2:
		v := vUFN("ec_sm2_"+which+"_"+c.name, n, p.bx, p.by, p.f1, p.f2)
		vAssume(vBytesEq(v, vUFN("ec_sm2_"+which+"_"+c.name, n, p.bx, p.by, p.f2, p.f1)))
		return v
	}
	s := "ec_sm3_" + which + "_" + c.name
	v := vUFN(s, n, p.bx, p.by, p.f1, p.f2, p.f3)
	vAssume(vBytesEq(v, vUFN(s, n, p.bx, p.by, p.f1, p.f3, p.f2)))
	vAssume(vBytesEq(v, vUFN(s, n, p.bx, p.by, p.f2, p.f1, p.f3)))
	vAssume(vBytesEq(v, vUFN(s, n, p.bx, p.by, p.f2, p.f3, p.f1)))
	vAssume(vBytesEq(v, vUFN(s, n, p.bx, p.by, p.f3, p.f1, p.f2)))
	vAssume(vBytesEq(v, vUFN(s, n, p.bx, p.by, p.f3, p.f2, p.f1)))
	return v
}

func (c MCurveP) ScalarMult(x, y *big.Int, k []byte) (*big.Int, *big.Int) {
	mustBig(x)
	mustBig(y)
	p := c.ecMul(ecLookup(x, y), clone(k))
	if p.nf == 0 {
		// every factor cancelled: the base point itself
		rx, ry := newBig(p.bx), newBig(p.by)
		bigOpaque[rx], bigOpaque[ry] = p.bxo, p.byo
		return rx, ry
	}
	rx, ry := newOpaque(c.ecCoord(p, "x")), newOpaque(c.ecCoord(p, "y"))
	ecReg = append(ecReg, ecRegEntry{x: bigMag[rx], y: bigMag[ry], pt: p})
	return rx, ry
}
func (c MCurveP) Add(x1, y1, x2, y2 *big.Int) (*big.Int, *big.Int) {
	mustBig(x1)
	mustBig(y1)
	mustBig(x2)
	mustBig(y2)
	return newOpaque(vUFN("ec_add_x_"+c.name, c.byteLen(), bigMag[x1], bigMag[y1], bigMag[x2], bigMag[y2])), newOpaque(vUFN("ec_add_y_"+c.name, c.byteLen(), bigMag[x1], bigMag[y1], bigMag[x2], bigMag[y2]))
}

func curveP(name string, bits int, n string) elliptic.Curve {
	var c interface{} = MCurveP{name, bits, n}
	return c.(elliptic.Curve)
}

func EllipticP224r() elliptic.Curve {
	return curveP("P-224", 224, "ffffffffffffffffffffffffffff16a2e0b8f03e13dd29455c5c2a3d")
}
func EllipticP256r() elliptic.Curve {
	return curveP("P-256", 256, "ffffffff00000000ffffffffffffffffbce6faada7179e84f3b9cac2fc632551")
}
func EllipticP384r() elliptic.Curve {
	return curveP("P-384", 384, "ffffffffffffffffffffffffffffffffffffffffffffffffc7634d81f4372ddf581a0db248b0a77aecec196accc52973")
}
func EllipticP521r() elliptic.Curve {
	return curveP("P-521", 521, "01fffffffffffffffffffffffffffffffffffffffffffffffffffffffffffffffffa51868783bf2f966b7fcc0148f709a5d03bb5c9b8899c47aebb6fb71e91386409")
}

// a nil *big.Int operand crashes the real library
func mustBig(x *big.Int) {
	if x == nil {
		panic("runtime error: invalid memory address or nil pointer dereference (nil *big.Int)")
	}
}

// results of opaque arithmetic are fixed-width values: their byte form is not normalised and
// questions about them (zero? ordering?) are answered by uninterpreted predicates
var bigOpaque = map[*big.Int]bool{}
var zerosUsed int
var bigZeroKnown = map[*big.Int]int{}

// the answer for one value is the same whichever integer object carries it
type zeroMemoEntry struct {
	mag []byte
	ans int
}

var zeroMemo []zeroMemoEntry

func opaque2(op string, n int, x, y *big.Int) []byte {
	mustBig(x)
	mustBig(y)
	// an uninterpreted function of the operands' magnitudes: no claim depends on its value, but
	// two executions of the same arithmetic on the same operands agree
	return vUFN("big_"+op, n, padW(bigMag[x]), padW(bigMag[y]))
}

// Arguments of the uninterpreted arithmetic are magnitudes left-padded to one width, so that the
// same integer gives the same argument whatever the length of the byte string that carries it
const bigW = 140
const mulW = 136

func padW(m []byte) []byte {
	if len(m) >= bigW {
		return m
	}
	out := make([]byte, bigW)
	copy(out[bigW-len(m):], m)
	return out
}

// stripLeading is stripZeros for magnitudes whose length is already minimal by construction
// (opaque results are treated as fixed-width values)
func stripLeading(m []byte) []byte { return m }

func maxLen(x, y *big.Int) int {
	n := len(bigMag[x])
	if len(bigMag[y]) > n {
		n = len(bigMag[y])
	}
	return n
}

func BigSub(z, x, y *big.Int) *big.Int {
	bigMag[z] = opaque2("sub", maxLen(x, y), x, y)
	bigSet[z] = true
	bigOpaque[z] = true
	return z
}
func BigAddO(z, x, y *big.Int) *big.Int {
	bigMag[z] = opaque2("add", maxLen(x, y)+1, x, y)
	bigSet[z] = true
	bigOpaque[z] = true
	return z
}
func BigMul(z, x, y *big.Int) *big.Int {
	mustBig(x)
	mustBig(y)
	// a function of the operands, commutative (its value is not interpreted)
	// (one result width, whatever the lengths of the byte strings that carry the operands)
	m := vUFN("big_mul", mulW, padW(bigMag[x]), padW(bigMag[y]))
	vAssume(vBytesEq(m, vUFN("big_mul", mulW, padW(bigMag[y]), padW(bigMag[x]))))
	bigMag[z] = m
	bigSet[z] = true
	bigOpaque[z] = true
	return z
}
func BigMod(z, x, y *big.Int) *big.Int {
	mustBig(x)
	mustBig(y)
	// exact for given (non-opaque) operands with x < y: x mod y = x
	if !bigOpaque[x] && !bigOpaque[y] && !bigNegative[x] && BigCmp(x, y) < 0 {
		bigMag[z] = bigMag[x]
		bigSet[z] = true
		bigOpaque[z] = false
		bigNegative[z] = false
		bigReduced[z] = true
		return z
	}
	bigMag[z] = vUFN("big_mod", len(bigMag[y]), padW(bigMag[x]), padW(bigMag[y]))
	bigSet[z] = true
	bigOpaque[z] = true
	bigReduced[z] = true
	return z
}
func BigExp(z, x, y, m *big.Int) *big.Int {
	mustBig(x)
	mustBig(y)
	mustBig(m)
	bigMag[z] = vUFN("big_exp", len(bigMag[m]), padW(bigMag[x]), padW(bigMag[y]), padW(bigMag[m]))
	bigSet[z] = true
	bigOpaque[z] = true
	return z
}

// ModInverse returns nil when g has no inverse (in particular for g = 0), as the real one does
func BigModInverse(z, g, n *big.Int) *big.Int {
	mustBig(g)
	mustBig(n)
	if BigSignS(g) == 0 {
		return nil
	}
	if bigReduced[g] {
		// on reduced residues inversion is an involution (and injective)
		inv := vUF("perm_big_inv", len(bigMag[n]), padW(bigMag[g]), padW(bigMag[n]))
		vAssume(vBytesEq(padW(vUF("perm_big_inv", len(bigMag[n]), padW(inv), padW(bigMag[n]))), padW(bigMag[g])))
		bigMag[z] = inv
		bigReduced[z] = true
	} else {
		bigMag[z] = vUFN("big_modinv", len(bigMag[n]), padW(bigMag[g]), padW(bigMag[n]))
	}
	bigSet[z] = true
	bigOpaque[z] = true
	bigZeroKnown[z] = 1
	return z
}

// values known to lie in [0, n) for the modulus they were produced with
var bigReduced = map[*big.Int]bool{}
func BigSet(z, x *big.Int) *big.Int {
	mustBig(x)
	bigMag[z] = bigMag[x]
	bigSet[z] = true
	bigNegative[z] = bigNegative[x]
	bigOpaque[z] = bigOpaque[x]
	bigZeroKnown[z] = bigZeroKnown[x]
	bigReduced[z] = bigReduced[x]
	return z
}

// Rsh by a concrete bit count, exact
func BigRsh(z, x *big.Int, n uint) *big.Int {
	mustBig(x)
	m := bigMag[x]
	out := make([]byte, len(m))
	bytesOff := int(n / 8)
	bits := n % 8
	for i := len(m) - 1; i >= 0; i-- {
		j := i - bytesOff
		if j < 0 {
			continue
		}
		v := m[j] >> bits
		if j > 0 && bits != 0 {
			v |= m[j-1] << (8 - bits)
		}
		out[i] = v
	}
	bigMag[z] = out
	bigSet[z] = true
	return z
}

// sign-aware Sign and Cmp for the range gate (negative values come from Neg)
func BigSignS(z *big.Int) int {
	mustBig(z)
	if bigOpaque[z] {
		// an arithmetic result may be zero, at most once per execution (retry loops stay bounded);
		// the answer for one integer object is decided once and then kept
		if bigZeroKnown[z] == 0 {
			for i := range zeroMemo {
				if vSameTerm(zeroMemo[i].mag, bigMag[z]) {
					bigZeroKnown[z] = zeroMemo[i].ans
				}
			}
		}
		if bigZeroKnown[z] == 0 {
			if zerosUsed < 1 && vUFBool("big_iszero", padW(bigMag[z])) {
				zerosUsed++
				bigZeroKnown[z] = 2
			} else {
				bigZeroKnown[z] = 1
			}
			zeroMemo = append(zeroMemo, zeroMemoEntry{mag: bigMag[z], ans: bigZeroKnown[z]})
		}
		if bigZeroKnown[z] == 2 {
			return 0
		}
		if bigNegative[z] {
			return -1
		}
		return 1
	}
	if isZeroMag(bigMag[z]) {
		return 0
	}
	if bigNegative[z] {
		return -1
	}
	return 1
}
func BigCmpS(x, y *big.Int) int {
	mustBig(x)
	mustBig(y)
	if bigOpaque[x] || bigOpaque[y] {
		// uninterpreted, but a function of the two values
		if vUFBool("big_eq", padW(bigMag[x]), padW(bigMag[y])) {
			return 0
		}
		if vUFBool("big_lt", padW(bigMag[x]), padW(bigMag[y])) {
			return -1
		}
		return 1
	}
	sx, sy := BigSignS(x), BigSignS(y)
	if sx != sy {
		if sx < sy {
			return -1
		}
		return 1
	}
	c := BigCmp(x, y)
	if sx < 0 {
		return -c
	}
	return c
}

// AES-CTR based CSPRNG of the signer: arbitrary bytes, never fails
type MBlock struct{}

func (MBlock) BlockSize() int          { return 16 }
func (MBlock) Encrypt(dst, src []byte) {}
func (MBlock) Decrypt(dst, src []byte) {}

func AesNewCipher(key []byte) (cipher.Block, error) {
	if len(key) != 16 && len(key) != 24 && len(key) != 32 {
		return nil, errf("crypto/aes: invalid key size")
	}
	var b interface{} = MBlock{}
	return b.(cipher.Block), nil
}

type MStream struct{}

func (MStream) XORKeyStream(dst, src []byte) { copy(dst, vFresh("ctr", len(src))) }

func CipherNewCTR(b cipher.Block, iv []byte) cipher.Stream {
	var s interface{} = MStream{}
	return s.(cipher.Stream)
}

// hash_to_field of the blinding factor: the model records what was hashed and how
type h2fCall struct {
	msg, dst, order []byte
	hash            uint
	l               uint
}

var h2fLog []h2fCall

type MExpander struct {
	h   uint
	dst []byte
}

func ExpanderNewExpanderMD(h uint, dst []byte) *expander.Expander {
	e := new(expander.Expander)
	vGhostSet(e, "dst", clone(dst))
	vGhostSet(e, "hash", []byte{byte(h)})
	return e
}

func GroupHashToField(u []big.Int, b []byte, e interface{}, order *big.Int, l uint) {
	dst := vGhostGet(e, "dst")
	h := vGhostGet(e, "hash")
	h2fLog = append(h2fLog, h2fCall{msg: clone(b), dst: dst, order: bigMag[order], hash: uint(h[0]), l: l})
	for i := range u {
		z := &u[i]
		bigMag[z] = vUF("hash_to_field", len(bigMag[order]), b, dst, h, []byte{byte(l)}, bigMag[order])
		bigSet[z] = true
		bigOpaque[z] = true
		// hash_to_field yields a reduced element; the value 0 (probability 2^-bits) is excluded
		bigReduced[z] = true
		bigZeroKnown[z] = 1
	}
}

// H2FLast lets a harness look at the last hash_to_field call
func H2FCount() int { return len(h2fLog) }

// group "c13parse": the verification behind the ASN.1 front end always succeeds, so that the
// verdict of VerifyASN1 is the verdict of its parser
func EcdsaVerifyAlways(pub interface{}, hash []byte, r, s *big.Int) bool {
	mustBig(r)
	mustBig(s)
	return true
}

// group "c12sign": ideal signatures for the fork's Sign / Verify, keyed by the public point, which
// only come out valid when the private scalar belongs to the public point: either the pair came
// from ScalarBaseMult, or the point is such a point times one factor f and the scalar is
// (d * f) mod n  (since ((d f) mod n) G = f (d G)).
type fsigEntry struct{ x, y, digest, r, s []byte }

var fsigLog []fsigEntry

func keyPairConsistent(priv *ecdsa.PrivateKey) bool {
	mustBig(priv.D)
	mustBig(priv.X)
	mustBig(priv.Y)
	d := bigMag[priv.D]
	for i := range sbmLog {
		e := sbmLog[i]
		if vSameTerm(e.x, bigMag[priv.X]) && vSameTerm(e.y, bigMag[priv.Y]) {
			return vSameTerm(e.k, d) || vSameTerm(stripZeros(e.k), stripZeros(d))
		}
	}
	p := ecLookup(priv.X, priv.Y)
	if p.nf != 1 {
		return false
	}
	n := bigMag[priv.Curve.Params().N]
	for i := range sbmLog {
		e := sbmLog[i]
		if vSameTerm(e.x, p.bx) && vSameTerm(e.y, p.by) {
			w := mulW
			if vSameTerm(d, vUFN("big_mod", len(n), padW(vUFN("big_mul", w, padW(e.k), padW(p.f1))), padW(n))) {
				return true
			}
			if vSameTerm(d, vUFN("big_mod", len(n), padW(vUFN("big_mul", w, padW(p.f1), padW(e.k))), padW(n))) {
				return true
			}
		}
	}
	return false
}

func ForkSign(rnd io.Reader, priv *ecdsa.PrivateKey, hash []byte) (*big.Int, *big.Int, error) {
	ent := make([]byte, 32)
	if _, err := io.ReadFull(rnd, ent); err != nil {
		return nil, nil, err
	}
	bl := len(bigMag[priv.Curve.Params().N])
	r, s := vFresh("ecdsa_r", bl), vFresh("ecdsa_s", bl)
	if keyPairConsistent(priv) {
		fsigLog = append(fsigLog, fsigEntry{x: bigMag[priv.X], y: bigMag[priv.Y], digest: clone(hash), r: r, s: s})
	}
	return newOpaque(r), newOpaque(s), nil
}

func ForkVerify(pub *ecdsa.PublicKey, hash []byte, r, s *big.Int) bool {
	mustBig(r)
	mustBig(s)
	for i := range fsigLog {
		e := fsigLog[i]
		if vBytesEq(e.x, bigMag[pub.X]) {
			if vBytesEq(e.y, bigMag[pub.Y]) {
				if vBytesEq(e.digest, hash) {
					if vBytesEq(e.r, bigMag[r]) {
						if vBytesEq(e.s, bigMag[s]) {
							return true
						}
					}
				}
			}
		}
	}
	return false
}
