package models

import (
	"crypto/cipher"
	"crypto/elliptic"
	"math/big"

	"github.com/cloudflare/circl/expander"
)

// Models for checking the key-blinding ECDSA fork itself (group "bigalg"): the four NIST curves
// with their real orders, opaque point arithmetic, and opaque modular arithmetic on math/big.
// Values of arithmetic results are uninterpreted functions of the operands; comparisons and
// byte conversions of *given* integers are exact.

func hexBytes(s string) []byte {
	out := make([]byte, len(s)/2)
	for i := range out {
		out[i] = hexNib(s[2*i])<<4 | hexNib(s[2*i+1])
	}
	return out
}

func hexNib(c byte) byte {
	if c >= 'a' {
		return c - 'a' + 10
	}
	return c - '0'
}

type MCurveP struct {
	name string
	bits int
	n    string
}

func (c MCurveP) Params() *elliptic.CurveParams {
	return &elliptic.CurveParams{N: newBig(hexBytes(c.n)), BitSize: c.bits, Name: c.name}
}

func (c MCurveP) byteLen() int { return (c.bits + 7) / 8 }

func newOpaque(mag []byte) *big.Int {
	z := newBig(mag)
	bigOpaque[z] = true
	return z
}

func (c MCurveP) ScalarBaseMult(k []byte) (*big.Int, *big.Int) {
	return newOpaque(vFresh("ec_sbm_x", c.byteLen())), newOpaque(vFresh("ec_sbm_y", c.byteLen()))
}
func (c MCurveP) ScalarMult(x, y *big.Int, k []byte) (*big.Int, *big.Int) {
	mustBig(x)
	mustBig(y)
	// a free group action: injective in the scalar bytes (and in the point)
	return newOpaque(vUF("ec_sm_x_"+c.name, c.byteLen(), bigMag[x], bigMag[y], k)), newOpaque(vUF("ec_sm_y_"+c.name, c.byteLen(), bigMag[x], bigMag[y], k))
}
func (c MCurveP) Add(x1, y1, x2, y2 *big.Int) (*big.Int, *big.Int) {
	mustBig(x1)
	mustBig(x2)
	return newOpaque(vFresh("ec_add_x", c.byteLen())), newOpaque(vFresh("ec_add_y", c.byteLen()))
}

func curveP(name string, bits int, n string) elliptic.Curve {
	var c interface{} = MCurveP{name, bits, n}
	return c.(elliptic.Curve)
}

func EllipticP224r() elliptic.Curve {
	return curveP("P-224", 224, "ffffffffffffffffffffffffffff16a2e0b8f03e13dd29455c5c2a3d")
}
func EllipticP256r() elliptic.Curve {
	return curveP("P-256", 256, "ffffffff00000000ffffffffffffffffbce6faada7179e84f3b9cac2fc632551")
}
func EllipticP384r() elliptic.Curve {
	return curveP("P-384", 384, "ffffffffffffffffffffffffffffffffffffffffffffffffc7634d81f4372ddf581a0db248b0a77aecec196accc52973")
}
func EllipticP521r() elliptic.Curve {
	return curveP("P-521", 521, "01fffffffffffffffffffffffffffffffffffffffffffffffffffffffffffffffffa51868783bf2f966b7fcc0148f709a5d03bb5c9b8899c47aebb6fb71e91386409")
}

// a nil *big.Int operand crashes the real library
func mustBig(x *big.Int) {
	if x == nil {
		panic("runtime error: invalid memory address or nil pointer dereference (nil *big.Int)")
	}
}

// results of opaque arithmetic are fixed-width values: their byte form is not normalised and
// questions about them (zero? ordering?) are answered by uninterpreted predicates
var bigOpaque = map[*big.Int]bool{}
var zerosUsed int
var bigZeroKnown = map[*big.Int]int{}

func opaque2(op string, n int, x, y *big.Int) []byte {
	mustBig(x)
	mustBig(y)
	return vFresh("big_"+op, n) // an arbitrary value: no claim depends on the result of this arithmetic
}

// stripLeading is stripZeros for magnitudes whose length is already minimal by construction
// (opaque results are treated as fixed-width values)
func stripLeading(m []byte) []byte { return m }

func maxLen(x, y *big.Int) int {
	n := len(bigMag[x])
	if len(bigMag[y]) > n {
		n = len(bigMag[y])
	}
	return n
}

func BigSub(z, x, y *big.Int) *big.Int {
	bigMag[z] = opaque2("sub", maxLen(x, y), x, y)
	bigSet[z] = true
	bigOpaque[z] = true
	return z
}
func BigAddO(z, x, y *big.Int) *big.Int {
	bigMag[z] = opaque2("add", maxLen(x, y)+1, x, y)
	bigSet[z] = true
	bigOpaque[z] = true
	return z
}
func BigMul(z, x, y *big.Int) *big.Int {
	mustBig(x)
	mustBig(y)
	bigMag[z] = opaque2("mul", len(bigMag[x])+len(bigMag[y]), x, y)
	bigSet[z] = true
	bigOpaque[z] = true
	return z
}
func BigMod(z, x, y *big.Int) *big.Int {
	mustBig(x)
	mustBig(y)
	// exact for given (non-opaque) operands with x < y: x mod y = x
	if !bigOpaque[x] && !bigOpaque[y] && !bigNegative[x] && BigCmp(x, y) < 0 {
		bigMag[z] = bigMag[x]
		bigSet[z] = true
		bigOpaque[z] = false
		bigNegative[z] = false
		return z
	}
	bigMag[z] = opaque2("mod", len(bigMag[y]), x, y)
	bigSet[z] = true
	bigOpaque[z] = true
	return z
}
func BigExp(z, x, y, m *big.Int) *big.Int {
	mustBig(x)
	mustBig(y)
	mustBig(m)
	bigMag[z] = vFresh("big_exp", len(bigMag[m]))
	bigSet[z] = true
	bigOpaque[z] = true
	return z
}

// ModInverse returns nil when g has no inverse (in particular for g = 0), as the real one does
func BigModInverse(z, g, n *big.Int) *big.Int {
	mustBig(g)
	mustBig(n)
	if BigSignS(g) == 0 {
		return nil
	}
	bigMag[z] = vFresh("big_modinv", len(bigMag[n]))
	bigSet[z] = true
	bigOpaque[z] = true
	return z
}
func BigSet(z, x *big.Int) *big.Int {
	mustBig(x)
	bigMag[z] = bigMag[x]
	bigSet[z] = true
	bigNegative[z] = bigNegative[x]
	bigOpaque[z] = bigOpaque[x]
	bigZeroKnown[z] = bigZeroKnown[x]
	return z
}

// Rsh by a concrete bit count, exact
func BigRsh(z, x *big.Int, n uint) *big.Int {
	mustBig(x)
	m := bigMag[x]
	out := make([]byte, len(m))
	bytesOff := int(n / 8)
	bits := n % 8
	for i := len(m) - 1; i >= 0; i-- {
		j := i - bytesOff
		if j < 0 {
			continue
		}
		v := m[j] >> bits
		if j > 0 && bits != 0 {
			v |= m[j-1] << (8 - bits)
		}
		out[i] = v
	}
	bigMag[z] = out
	bigSet[z] = true
	return z
}

// sign-aware Sign and Cmp for the range gate (negative values come from Neg)
func BigSignS(z *big.Int) int {
	mustBig(z)
	if bigOpaque[z] {
		// an arithmetic result may be zero, at most once per execution (retry loops stay bounded);
		// the answer for one integer object is decided once and then kept
		if bigZeroKnown[z] == 0 {
			if zerosUsed < 1 && vFreshBool("big_iszero") {
				zerosUsed++
				bigZeroKnown[z] = 2
			} else {
				bigZeroKnown[z] = 1
			}
		}
		if bigZeroKnown[z] == 2 {
			return 0
		}
		if bigNegative[z] {
			return -1
		}
		return 1
	}
	if len(stripZeros(bigMag[z])) == 0 {
		return 0
	}
	if bigNegative[z] {
		return -1
	}
	return 1
}
func BigCmpS(x, y *big.Int) int {
	mustBig(x)
	mustBig(y)
	if bigOpaque[x] || bigOpaque[y] {
		if vFreshBool("big_eq") {
			return 0
		}
		if vFreshBool("big_lt") {
			return -1
		}
		return 1
	}
	sx, sy := BigSignS(x), BigSignS(y)
	if sx != sy {
		if sx < sy {
			return -1
		}
		return 1
	}
	c := BigCmp(x, y)
	if sx < 0 {
		return -c
	}
	return c
}

// AES-CTR based CSPRNG of the signer: arbitrary bytes, never fails
type MBlock struct{}

func (MBlock) BlockSize() int          { return 16 }
func (MBlock) Encrypt(dst, src []byte) {}
func (MBlock) Decrypt(dst, src []byte) {}

func AesNewCipher(key []byte) (cipher.Block, error) {
	if len(key) != 16 && len(key) != 24 && len(key) != 32 {
		return nil, errf("crypto/aes: invalid key size")
	}
	var b interface{} = MBlock{}
	return b.(cipher.Block), nil
}

type MStream struct{}

func (MStream) XORKeyStream(dst, src []byte) { copy(dst, vFresh("ctr", len(src))) }

func CipherNewCTR(b cipher.Block, iv []byte) cipher.Stream {
	var s interface{} = MStream{}
	return s.(cipher.Stream)
}

// hash_to_field of the blinding factor: the model records what was hashed and how
type h2fCall struct {
	msg, dst, order []byte
	hash            uint
	l               uint
}

var h2fLog []h2fCall

type MExpander struct {
	h   uint
	dst []byte
}

func ExpanderNewExpanderMD(h uint, dst []byte) *expander.Expander {
	e := new(expander.Expander)
	vGhostSet(e, "dst", clone(dst))
	vGhostSet(e, "hash", []byte{byte(h)})
	return e
}

func GroupHashToField(u []big.Int, b []byte, e interface{}, order *big.Int, l uint) {
	dst := vGhostGet(e, "dst")
	h := vGhostGet(e, "hash")
	h2fLog = append(h2fLog, h2fCall{msg: clone(b), dst: dst, order: bigMag[order], hash: uint(h[0]), l: l})
	for i := range u {
		z := &u[i]
		bigMag[z] = vUF("hash_to_field", len(bigMag[order]), b, dst, h, []byte{byte(l)}, bigMag[order])
		bigSet[z] = true
		bigOpaque[z] = true
	}
}

// H2FLast lets a harness look at the last hash_to_field call
func H2FCount() int { return len(h2fLog) }

// group "c13parse": the verification behind the ASN.1 front end always succeeds, so that the
// verdict of VerifyASN1 is the verdict of its parser
func EcdsaVerifyAlways(pub interface{}, hash []byte, r, s *big.Int) bool {
	mustBig(r)
	mustBig(s)
	return true
}
