package models

// Abstract kernels of the Ed25519 fork (group "edabs"), used by the glue-level harnesses of
// C15 / C16 / C14: the two scalar kernels and the point operations are shared function symbols;
// the glue in ed25519.go and the Scalar methods built on the kernels are executed from their SSA.
//   scReduce(x[64])      = x mod l                       -> RED(x)
//   scMulAdd(a, b, c)    = (a b + c) mod l               -> MA(a, b, c), with the ring facts the
//                                                           harnesses need added per application
//   points               = base point * multiset of scalar factors (at most three)

func ScReduce(out *[32]byte, s *[64]byte) {
	copy(out[:], vUFN("sc_reduce", 32, s[:]))
}

var scZeroBytes []byte

func isZero32(b []byte) bool {
	for i := range b {
		if b[i] != 0 {
			return false
		}
	}
	return true
}

func ScMulAdd(out, a, b, c *[32]byte) {
	// products are commutative; a b + 0 is written as the product symbol
	if scZeroBytes == nil {
		scZeroBytes = make([]byte, 32)
	}
	if vSameTerm(c[:], scZeroBytes) {
		p := vUFN("sc_mul", 32, a[:], b[:])
		vAssume(vBytesEq(p, vUFN("sc_mul", 32, b[:], a[:])))
		copy(out[:], p)
		return
	}
	copy(out[:], vUFN("sc_muladd", 32, a[:], b[:], c[:]))
}

// (*Scalar).ModInverse as a whole: s <- INV(s), with INV(INV(s)) = s
func ScalarModInverse(s interface{}) interface{} {
	b := vFieldBytes(s, 0)
	inv := vUF("perm_sc_inv", 32, b)
	vAssume(vBytesEq(vUF("perm_sc_inv", 32, inv), b))
	copy(b, inv)
	return s
}

type edPoint struct {
	base       []byte
	f1, f2, f3 []byte
	nf         int
}

var (
	edGhost = map[int]*edPoint{}
	edNext  int
	edReg   []edRegEntry
)

type edRegEntry struct {
	enc []byte
	pt  *edPoint
}

func edGet(p interface{}) *edPoint {
	id := vGhostGet(p, "edpoint")
	if len(id) == 0 {
		// the zero Point / identity
		return &edPoint{base: vUFN("ed_identity", 32)}
	}
	return edGhost[int(id[0])]
}

func edSet(p interface{}, pt *edPoint) {
	edNext++
	edGhost[edNext] = pt
	vGhostSet(p, "edpoint", []byte{byte(edNext)})
}

func edEncode(p *edPoint) []byte {
	var enc []byte
	switch p.nf {
	case 0:
		enc = clone(p.base)
	case 1:
		enc = vUF("ed_mul1", 32, p.base, p.f1)
	case 2:
		enc = vUFN("ed_mul2", 32, p.base, p.f1, p.f2)
		vAssume(vBytesEq(enc, vUFN("ed_mul2", 32, p.base, p.f2, p.f1)))
	default:
		// three scalars: all six orders give the same point
		enc = vUFN("ed_mul3", 32, p.base, p.f1, p.f2, p.f3)
		vAssume(vBytesEq(enc, vUFN("ed_mul3", 32, p.base, p.f1, p.f3, p.f2)))
		vAssume(vBytesEq(enc, vUFN("ed_mul3", 32, p.base, p.f2, p.f1, p.f3)))
		vAssume(vBytesEq(enc, vUFN("ed_mul3", 32, p.base, p.f2, p.f3, p.f1)))
		vAssume(vBytesEq(enc, vUFN("ed_mul3", 32, p.base, p.f3, p.f1, p.f2)))
		vAssume(vBytesEq(enc, vUFN("ed_mul3", 32, p.base, p.f3, p.f2, p.f1)))
	}
	vAssume(vUFBool("ed_valid", enc))
	for i := range edReg {
		if edReg[i].pt == p {
			return enc
		}
	}
	edReg = append(edReg, edRegEntry{enc: enc, pt: p})
	return enc
}

func EdPointSetBytes(v interface{}, x []byte) (interface{}, error) {
	if len(x) != 32 {
		return nil, errf("edwards25519: invalid point encoding length")
	}
	for i := range edReg {
		if vSameTerm(edReg[i].enc, x) {
			edSet(v, edReg[i].pt)
			return v, nil
		}
	}
	for i := range edReg {
		if vBytesEq(edReg[i].enc, x) {
			edSet(v, edReg[i].pt)
			return v, nil
		}
	}
	if !vUFBool("ed_valid", x) {
		return nil, errf("edwards25519: invalid point encoding")
	}
	pt := &edPoint{base: clone(x)}
	edReg = append(edReg, edRegEntry{enc: pt.base, pt: pt})
	edSet(v, pt)
	return v, nil
}

func EdPointBytes(v interface{}) []byte { return edEncode(edGet(v)) }

func edMul(p *edPoint, f []byte) *edPoint {
	inv := vUF("perm_sc_inv", 32, f)
	vAssume(vBytesEq(vUF("perm_sc_inv", 32, inv), f))
	if p.nf >= 1 && (vSameTerm(p.f1, inv) || vBytesEq(p.f1, inv)) {
		return &edPoint{base: p.base, f1: p.f2, f2: p.f3, nf: p.nf - 1}
	}
	if p.nf >= 2 && (vSameTerm(p.f2, inv) || vBytesEq(p.f2, inv)) {
		return &edPoint{base: p.base, f1: p.f1, f2: p.f3, nf: p.nf - 1}
	}
	if p.nf >= 3 && (vSameTerm(p.f3, inv) || vBytesEq(p.f3, inv)) {
		return &edPoint{base: p.base, f1: p.f1, f2: p.f2, nf: 2}
	}
	switch p.nf {
	case 0:
		return &edPoint{base: p.base, f1: f, nf: 1}
	case 1:
		return &edPoint{base: p.base, f1: p.f1, f2: f, nf: 2}
	case 2:
		return &edPoint{base: p.base, f1: p.f1, f2: p.f2, f3: f, nf: 3}
	}
	panic("ed model: more than three factors")
}

func EdPointScalarMult(v interface{}, x interface{}, q interface{}) interface{} {
	edSet(v, edMul(edGet(q), clone(scBytesOf(x))))
	return v
}

var edBasePoint *edPoint // models' initialisers are not run: created on first use

func EdPointScalarBaseMult(v interface{}, x interface{}) interface{} {
	if edBasePoint == nil {
		edBasePoint = &edPoint{base: vUFN("ed_basepoint", 32)}
	}
	edSet(v, edMul(&edPoint{base: edBasePoint.base}, clone(scBytesOf(x))))
	return v
}

func EdPointNegate(v interface{}, p interface{}) interface{} {
	q := edGet(p)
	edSet(v, &edPoint{base: vUFN("ed_neg", 32, edEncode(q))})
	return v
}

func EdPointVarTimeDoubleScalarBaseMult(v interface{}, a interface{}, A interface{}, b interface{}) interface{} {
	edSet(v, &edPoint{base: vUFN("ed_double_mult", 32, scBytesOf(a), edEncode(edGet(A)), scBytesOf(b))})
	return v
}
