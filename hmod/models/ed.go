package models

// Abstract kernels of the Ed25519 fork (group "edabs"), used by the glue-level harnesses of
// C15 / C16 / C14: the two scalar kernels and the point operations are shared function symbols;
// the glue in ed25519.go and the Scalar methods built on the kernels are executed from their SSA.
//   scReduce(x[64])      = x mod l                       -> RED(x)
//   scMulAdd(a, b, c)    = (a b + c) mod l               -> MA(a, b, c), with the ring facts the
//                                                           harnesses need added per application
//   points               = base point * multiset of scalar factors (at most three)

func ScReduce(out *[32]byte, s *[64]byte) {
	copy(out[:], vUFN("sc_reduce", 32, s[:]))
}

var scZeroBytes []byte

func isZero32(b []byte) bool {
	for i := range b {
		if b[i] != 0 {
			return false
		}
	}
	return true
}

func ScMulAdd(out, a, b, c *[32]byte) {
	// products are commutative; a b + 0 is written as the product symbol
	if scZeroBytes == nil {
		scZeroBytes = make([]byte, 32)
	}
	if vSameTerm(c[:], scZeroBytes) {
		p := vUFN("sc_mul", 32, a[:], b[:])
		vAssume(vBytesEq(p, vUFN("sc_mul", 32, b[:], a[:])))
		copy(out[:], p)
		return
	}
	copy(out[:], vUFN("sc_muladd", 32, a[:], b[:], c[:]))
}

// (*Scalar).ModInverse as a whole: s <- INV(s), with INV(INV(s)) = s
func ScalarModInverse(s interface{}) interface{} {
	b := vFieldBytes(s, 0)
	inv := vUF("perm_sc_inv", 32, b)
	vAssume(vBytesEq(vUF("perm_sc_inv", 32, inv), b))
	copy(b, inv)
	return s
}

type edPoint struct {
	base       []byte
	f1, f2, f3 []byte
	nf         int
}

var (
	edGhost = map[int]*edPoint{}
	edNext  int
	edReg   []edRegEntry
)

type edRegEntry struct {
	enc []byte
	pt  *edPoint
}

// the neutral element and its three non-canonical encodings (y = 1 with the sign bit set,
// y = p + 1 with either sign): RFC 8032 decoders that do not insist on canonical encodings,
// like this package and the standard library, accept all four and re-encode canonically
func edIdentityEnc() []byte {
	b := make([]byte, 32)
	b[0] = 1
	return b
}

func edNonCanonIdentity(k int) []byte {
	b := make([]byte, 32)
	switch k {
	case 0: // y = 1, sign bit set
		b[0], b[31] = 1, 0x80
	default: // y = p + 1
		for i := range b {
			b[i] = 0xff
		}
		b[0] = 0xee
		if k == 1 {
			b[31] = 0x7f
		}
	}
	return b
}

// one decision per candidate; the candidates' outcomes merge into accepted-as-identity or not
func edIsIdentityEncoding(x []byte) bool {
	if vSameTerm(x, edIdentityEnc()) {
		return true
	}
	id := vBytesEq(x, edIdentityEnc())
	for k := 0; k < 3 && !id; k++ {
		id = vBytesEq(x, edNonCanonIdentity(k))
	}
	return id
}

func edIsIdentity(p *edPoint) bool {
	return p.nf == 0 && vSameTerm(p.base, edIdentityEnc())
}

func edGet(p interface{}) *edPoint {
	id := vGhostGet(p, "edpoint")
	if len(id) == 0 {
		// the zero Point stands for the identity
		return &edPoint{base: edIdentityEnc()}
	}
	return edGhost[int(id[0])]
}

func edSet(p interface{}, pt *edPoint) {
	edNext++
	edGhost[edNext] = pt
	vGhostSet(p, "edpoint", []byte{byte(edNext)})
}

func edEncode(p *edPoint) []byte {
	var enc []byte
	if edIsIdentity(p) {
		return edIdentityEnc()
	}
	switch p.nf {
	case 0:
		enc = clone(p.base)
	case 1:
		enc = vUF("ed_mul1", 32, p.base, p.f1)
	case 2:
		enc = vUFN("ed_mul2", 32, p.base, p.f1, p.f2)
		vAssume(vBytesEq(enc, vUFN("ed_mul2", 32, p.base, p.f2, p.f1)))
	default:
		// three scalars: all six orders give the same point
		enc = vUFN("ed_mul3", 32, p.base, p.f1, p.f2, p.f3)
		vAssume(vBytesEq(enc, vUFN("ed_mul3", 32, p.base, p.f1, p.f3, p.f2)))
		vAssume(vBytesEq(enc, vUFN("ed_mul3", 32, p.base, p.f2, p.f1, p.f3)))
		vAssume(vBytesEq(enc, vUFN("ed_mul3", 32, p.base, p.f2, p.f3, p.f1)))
		vAssume(vBytesEq(enc, vUFN("ed_mul3", 32, p.base, p.f3, p.f1, p.f2)))
		vAssume(vBytesEq(enc, vUFN("ed_mul3", 32, p.base, p.f3, p.f2, p.f1)))
	}
	vAssume(vUFBool("ed_valid", enc))
	if p.nf > 0 {
		// Bytes() produces canonical encodings only
		for k := 0; k < 3; k++ {
			vAssume(!vBytesEq(enc, edNonCanonIdentity(k)))
		}
	}
	for i := range edReg {
		if edReg[i].pt == p {
			return enc
		}
	}
	edReg = append(edReg, edRegEntry{enc: enc, pt: p})
	return enc
}

func EdPointSetBytes(v interface{}, x []byte) (interface{}, error) {
	if len(x) != 32 {
		return nil, errf("edwards25519: invalid point encoding length")
	}
	for i := range edReg {
		if vSameTerm(edReg[i].enc, x) {
			edSet(v, edReg[i].pt)
			return v, nil
		}
	}
	if edIsIdentityEncoding(x) {
		edSet(v, &edPoint{base: edIdentityEnc()})
		return v, nil
	}
	for i := range edReg {
		if vBytesEq(edReg[i].enc, x) {
			edSet(v, edReg[i].pt)
			return v, nil
		}
	}
	if !vUFBool("ed_valid", x) {
		return nil, errf("edwards25519: invalid point encoding")
	}
	pt := &edPoint{base: clone(x)}
	edReg = append(edReg, edRegEntry{enc: pt.base, pt: pt})
	edSet(v, pt)
	return v, nil
}

func EdPointBytes(v interface{}) []byte { return edEncode(edGet(v)) }

func edMul(p *edPoint, f []byte) *edPoint {
	if edIsIdentity(p) {
		return &edPoint{base: edIdentityEnc()}
	}
	inv := vUF("perm_sc_inv", 32, f)
	vAssume(vBytesEq(vUF("perm_sc_inv", 32, inv), f))
	if p.nf >= 1 && (vSameTerm(p.f1, inv) || vBytesEq(p.f1, inv)) {
		return &edPoint{base: p.base, f1: p.f2, f2: p.f3, nf: p.nf - 1}
	}
	if p.nf >= 2 && (vSameTerm(p.f2, inv) || vBytesEq(p.f2, inv)) {
		return &edPoint{base: p.base, f1: p.f1, f2: p.f3, nf: p.nf - 1}
	}
	if p.nf >= 3 && (vSameTerm(p.f3, inv) || vBytesEq(p.f3, inv)) {
		return &edPoint{base: p.base, f1: p.f1, f2: p.f2, nf: 2}
	}
	switch p.nf {
	case 0:
		return &edPoint{base: p.base, f1: f, nf: 1}
	case 1:
		return &edPoint{base: p.base, f1: p.f1, f2: f, nf: 2}
	case 2:
		return &edPoint{base: p.base, f1: p.f1, f2: p.f2, f3: f, nf: 3}
	}
	panic("ed model: more than three factors")
}

func EdPointScalarMult(v interface{}, x interface{}, q interface{}) interface{} {
	edSet(v, edMul(edGet(q), clone(scBytesOf(x))))
	return v
}

var edBasePoint *edPoint // models' initialisers are not run: created on first use

func EdPointScalarBaseMult(v interface{}, x interface{}) interface{} {
	if edBasePoint == nil {
		edBasePoint = &edPoint{base: vUFN("ed_basepoint", 32)}
	}
	edSet(v, edMul(&edPoint{base: edBasePoint.base}, clone(scBytesOf(x))))
	return v
}

func EdPointNegate(v interface{}, p interface{}) interface{} {
	q := edGet(p)
	if edIsIdentity(q) {
		edSet(v, &edPoint{base: edIdentityEnc()})
		return v
	}
	edSet(v, &edPoint{base: vUFN("ed_neg", 32, edEncode(q))})
	return v
}

func EdPointVarTimeDoubleScalarBaseMult(v interface{}, a interface{}, A interface{}, b interface{}) interface{} {
	// [a]O + [0]B = O
	if edIsIdentity(edGet(A)) && vBytesEq(scBytesOf(b), make([]byte, 32)) {
		edSet(v, &edPoint{base: edIdentityEnc()})
		return v
	}
	edSet(v, &edPoint{base: vUFN("ed_double_mult", 32, scBytesOf(a), edEncode(edGet(A)), scBytesOf(b))})
	return v
}

// Equal compares points, i.e. canonical encodings
func EdPointEqual(v interface{}, u interface{}) int {
	if vBytesEq(edEncode(edGet(v)), edEncode(edGet(u))) {
		return 1
	}
	return 0
}
