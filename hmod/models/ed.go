package models

// Abstract kernels of the Ed25519 fork (group "edabs"), used by the glue-level harnesses of
// C15 / C16 / C14: the two scalar kernels and the point operations are shared function symbols;
// the glue in ed25519.go and the Scalar methods built on the kernels are executed from their SSA.
//   scReduce(x[64])      = x mod l                       -> RED(x)
//   scMulAdd(a, b, c)    = (a b + c) mod l               -> MA(a, b, c), with the ring facts the
//                                                           harnesses need added per application
//   points               = base point * multiset of scalar factors (at most three)

func ScReduce(out *[32]byte, s *[64]byte) {
	copy(out[:], scReduceTerm(s[:]))
}

// results of the scalar kernels are canonical: below l
func scCanonical(out []byte) []byte {
	be := make([]byte, 32)
	for i := range out {
		be[31-i] = out[i]
	}
	l := make([]byte, 32)
	copy(l, []byte{0x10})
	copy(l[16:], []byte{0x14, 0xde, 0xf9, 0xde, 0xa2, 0xf7, 0x9c, 0xd6, 0x58, 0x12, 0x63, 0x1a, 0x5c, 0xf5, 0xd3, 0xed})
	vAssume(vBytesLess(be, l))
	return out
}

func scReduceTerm(wide []byte) []byte { return scCanonical(vUFN("sc_reduce", 32, wide)) }

// what the multiply-add kernel was applied to: the point model uses it to recognise
// [k x + r]B - [k]([x]B) = [r]B  and  [x y]B = [y]([x]B)
type scMulEntry struct{ a, b, c, out []byte }

var scMulLog []scMulEntry

func scMulAddTerm(a, b, c []byte) []byte {
	if scZeroBytes == nil {
		scZeroBytes = make([]byte, 32)
	}
	var out []byte
	if vSameTerm(c, scZeroBytes) {
		// products are commutative; a b + 0 is written as the product symbol
		out = vUFN("sc_mul", 32, a, b)
		vAssume(vBytesEq(out, vUFN("sc_mul", 32, b, a)))
		c = nil
	} else {
		out = vUFN("sc_muladd", 32, a, b, c)
	}
	scCanonical(out)
	for i := range scMulLog {
		if vSameTerm(scMulLog[i].out, out) {
			return out
		}
	}
	scMulLog = append(scMulLog, scMulEntry{a: clone(a), b: clone(b), c: clone(c), out: out})
	return out
}

var scZeroBytes []byte

func isZero32(b []byte) bool {
	for i := range b {
		if b[i] != 0 {
			return false
		}
	}
	return true
}

func ScMulAdd(out, a, b, c *[32]byte) {
	copy(out[:], scMulAddTerm(a[:], b[:], c[:]))
}

// (*Scalar).ModInverse as a whole: s <- INV(s), with INV(INV(s)) = s
func ScalarModInverse(s interface{}) interface{} {
	b := vFieldBytes(s, 0)
	inv := vUF("perm_sc_inv", 32, b)
	vAssume(vBytesEq(vUF("perm_sc_inv", 32, inv), b))
	copy(b, inv)
	return s
}

type edPoint struct {
	base       []byte
	f1, f2, f3 []byte
	nf         int
	neg        bool // the negative of pos
	pos        *edPoint
}

var (
	edGhost = map[int]*edPoint{}
	edNext  int
	edReg   []edRegEntry
)

type edRegEntry struct {
	enc []byte
	pt  *edPoint
}

// the neutral element and its three non-canonical encodings (y = 1 with the sign bit set,
// y = p + 1 with either sign): RFC 8032 decoders that do not insist on canonical encodings,
// like this package and the standard library, accept all four and re-encode canonically
func edIdentityEnc() []byte {
	b := make([]byte, 32)
	b[0] = 1
	return b
}

func edNonCanonIdentity(k int) []byte {
	b := make([]byte, 32)
	switch k {
	case 0: // y = 1, sign bit set
		b[0], b[31] = 1, 0x80
	default: // y = p + 1
		for i := range b {
			b[i] = 0xff
		}
		b[0] = 0xee
		if k == 1 {
			b[31] = 0x7f
		}
	}
	return b
}

// one decision per candidate; the candidates' outcomes merge into accepted-as-identity or not
func edIsIdentityEncoding(x []byte) bool {
	if vSameTerm(x, edIdentityEnc()) {
		return true
	}
	id := vBytesEq(x, edIdentityEnc())
	for k := 0; k < 3 && !id; k++ {
		id = vBytesEq(x, edNonCanonIdentity(k))
	}
	return id
}

// the point of order two, (0, -1): canonical encoding y = p - 1, and the same with the sign bit
// set (x = 0 has no sign), which decoders that do not insist on canonical encodings accept too
func edT2Enc(signBit bool) []byte {
	b := make([]byte, 32)
	for i := range b {
		b[i] = 0xff
	}
	b[0] = 0xec
	if !signBit {
		b[31] = 0x7f
	}
	return b
}

func edIsT2(p *edPoint) bool { return p.nf == 0 && !p.neg && vSameTerm(p.base, edT2Enc(false)) }

func edIsT2Encoding(x []byte) bool {
	if vSameTerm(x, edT2Enc(false)) || vSameTerm(x, edT2Enc(true)) {
		return true
	}
	return vBytesEq(x, edT2Enc(false)) || vBytesEq(x, edT2Enc(true))
}

func edIsIdentity(p *edPoint) bool {
	return p.nf == 0 && vSameTerm(p.base, edIdentityEnc())
}

func edGet(p interface{}) *edPoint {
	id := vGhostGet(p, "edpoint")
	if len(id) == 0 {
		// the zero Point stands for the identity
		return &edPoint{base: edIdentityEnc()}
	}
	return edGhost[int(id[0])]
}

func edSet(p interface{}, pt *edPoint) {
	edNext++
	edGhost[edNext] = pt
	vGhostSet(p, "edpoint", []byte{byte(edNext)})
}

func edEncode(p *edPoint) []byte {
	var enc []byte
	if edIsIdentity(p) {
		return edIdentityEnc()
	}
	if p.neg {
		enc = vUFN("ed_neg", 32, edEncode(p.pos))
		vAssume(vUFBool("ed_valid", enc))
		for i := range edReg {
			if edReg[i].pt == p {
				return enc
			}
		}
		edReg = append(edReg, edRegEntry{enc: enc, pt: p})
		return enc
	}
	switch p.nf {
	case 0:
		enc = clone(p.base)
	case 1:
		enc = vUF("ed_mul1", 32, p.base, p.f1)
	case 2:
		enc = vUFN("ed_mul2", 32, p.base, p.f1, p.f2)
		vAssume(vBytesEq(enc, vUFN("ed_mul2", 32, p.base, p.f2, p.f1)))
	default:
		// three scalars: all six orders give the same point
		enc = vUFN("ed_mul3", 32, p.base, p.f1, p.f2, p.f3)
		vAssume(vBytesEq(enc, vUFN("ed_mul3", 32, p.base, p.f1, p.f3, p.f2)))
		vAssume(vBytesEq(enc, vUFN("ed_mul3", 32, p.base, p.f2, p.f1, p.f3)))
		vAssume(vBytesEq(enc, vUFN("ed_mul3", 32, p.base, p.f2, p.f3, p.f1)))
		vAssume(vBytesEq(enc, vUFN("ed_mul3", 32, p.base, p.f3, p.f1, p.f2)))
		vAssume(vBytesEq(enc, vUFN("ed_mul3", 32, p.base, p.f3, p.f2, p.f1)))
	}
	vAssume(vUFBool("ed_valid", enc))
	if p.nf > 0 {
		// Bytes() produces canonical encodings only
		for k := 0; k < 3; k++ {
			vAssume(!vBytesEq(enc, edNonCanonIdentity(k)))
		}
	}
	for i := range edReg {
		if edReg[i].pt == p {
			return enc
		}
	}
	edReg = append(edReg, edRegEntry{enc: enc, pt: p})
	return enc
}

func EdPointSetBytes(v interface{}, x []byte) (interface{}, error) {
	if len(x) != 32 {
		return nil, errf("edwards25519: invalid point encoding length")
	}
	for i := range edReg {
		if vSameTerm(edReg[i].enc, x) {
			edSet(v, edReg[i].pt)
			return v, nil
		}
	}
	if edIsIdentityEncoding(x) {
		edSet(v, &edPoint{base: edIdentityEnc()})
		return v, nil
	}
	if edIsT2Encoding(x) {
		edSet(v, &edPoint{base: edT2Enc(false)})
		return v, nil
	}
	for i := range edReg {
		if vBytesEq(edReg[i].enc, x) {
			edSet(v, edReg[i].pt)
			return v, nil
		}
	}
	if !vUFBool("ed_valid", x) {
		return nil, errf("edwards25519: invalid point encoding")
	}
	pt := &edPoint{base: clone(x)}
	edReg = append(edReg, edRegEntry{enc: pt.base, pt: pt})
	edSet(v, pt)
	return v, nil
}

func EdPointBytes(v interface{}) []byte { return edEncode(edGet(v)) }

func edNegOf(q *edPoint) *edPoint {
	if q.neg {
		return q.pos
	}
	return &edPoint{base: q.base, f1: q.f1, f2: q.f2, f3: q.f3, nf: q.nf, neg: true, pos: q}
}

func edMul(p *edPoint, f []byte) *edPoint {
	if edIsIdentity(p) {
		return &edPoint{base: edIdentityEnc()}
	}
	if edIsT2(p) {
		// [f]T2 = T2 for odd f, O for even f
		if f[0]&1 == 1 {
			return &edPoint{base: edT2Enc(false)}
		}
		return &edPoint{base: edIdentityEnc()}
	}
	if p.neg {
		return edNegOf(edMul(p.pos, f))
	}
	inv := vUF("perm_sc_inv", 32, f)
	vAssume(vBytesEq(vUF("perm_sc_inv", 32, inv), f))
	if p.nf >= 1 && (vSameTerm(p.f1, inv) || vBytesEq(p.f1, inv)) {
		return &edPoint{base: p.base, f1: p.f2, f2: p.f3, nf: p.nf - 1}
	}
	if p.nf >= 2 && (vSameTerm(p.f2, inv) || vBytesEq(p.f2, inv)) {
		return &edPoint{base: p.base, f1: p.f1, f2: p.f3, nf: p.nf - 1}
	}
	if p.nf >= 3 && (vSameTerm(p.f3, inv) || vBytesEq(p.f3, inv)) {
		return &edPoint{base: p.base, f1: p.f1, f2: p.f2, nf: 2}
	}
	switch p.nf {
	case 0:
		return &edPoint{base: p.base, f1: f, nf: 1}
	case 1:
		return &edPoint{base: p.base, f1: p.f1, f2: f, nf: 2}
	case 2:
		return &edPoint{base: p.base, f1: p.f1, f2: p.f2, f3: f, nf: 3}
	}
	panic("ed model: more than three factors")
}

func EdPointScalarMult(v interface{}, x interface{}, q interface{}) interface{} {
	edSet(v, edMul(edGet(q), clone(scBytesOf(x))))
	return v
}

var edBasePoint *edPoint // models' initialisers are not run: created on first use

func EdPointScalarBaseMult(v interface{}, x interface{}) interface{} {
	if edBasePoint == nil {
		edBasePoint = &edPoint{base: vUFN("ed_basepoint", 32)}
	}
	edSet(v, edMul(&edPoint{base: edBasePoint.base}, clone(scBytesOf(x))))
	return v
}

func EdPointNegate(v interface{}, p interface{}) interface{} {
	q := edGet(p)
	if edIsIdentity(q) {
		edSet(v, &edPoint{base: edIdentityEnc()})
		return v
	}
	if edIsT2(q) {
		edSet(v, &edPoint{base: edT2Enc(false)}) // -T2 = T2
		return v
	}
	edSet(v, edNegOf(q))
	return v
}

func scSame(a, b []byte) bool { return vSameTerm(a, b) || vBytesEq(a, b) }

// x is the discrete logarithm of p = basepoint * factors: the single factor, or the recorded
// product of the two factors
func edScalarOf(p *edPoint, x []byte) bool {
	if edBasePoint == nil || p.neg || !vSameTerm(p.base, edBasePoint.base) {
		return false
	}
	if p.nf == 1 {
		return scSame(p.f1, x)
	}
	if p.nf == 0 {
		// the two factors of x cancelled: x = a * INV(a) = 1
		for i := range scMulLog {
			m := scMulLog[i]
			if len(m.c) == 0 && scSame(m.out, x) && (scSame(m.b, vUF("perm_sc_inv", 32, m.a)) || scSame(m.a, vUF("perm_sc_inv", 32, m.b))) {
				return true
			}
		}
		return false
	}
	if p.nf == 2 {
		for i := range scMulLog {
			m := scMulLog[i]
			if len(m.c) == 0 && scSame(m.out, x) {
				if (scSame(m.a, p.f1) && scSame(m.b, p.f2)) || (scSame(m.a, p.f2) && scSame(m.b, p.f1)) {
					return true
				}
			}
		}
	}
	return false
}

func EdPointVarTimeDoubleScalarBaseMult(v interface{}, a interface{}, A interface{}, b interface{}) interface{} {
	pA := edGet(A)
	ka, sb := scBytesOf(a), scBytesOf(b)
	// [a]O + [b]B = [b]B  (= O for b = 0)
	if edIsIdentity(pA) {
		if vBytesEq(sb, make([]byte, 32)) {
			edSet(v, &edPoint{base: edIdentityEnc()})
			return v
		}
		if edBasePoint == nil {
			edBasePoint = &edPoint{base: vUFN("ed_basepoint", 32)}
		}
		edSet(v, edMul(&edPoint{base: edBasePoint.base}, clone(sb)))
		return v
	}
	// [a]T2 + [0]B = T2 or O by the parity of a
	if edIsT2(pA) && vBytesEq(sb, make([]byte, 32)) {
		edSet(v, edMul(pA, ka))
		return v
	}
	// [k](-[x]B) + [k x + r]B = [r]B
	if pA.neg && edBasePoint != nil {
		for i := range scMulLog {
			m := scMulLog[i]
			if len(m.c) != 32 || !vSameTerm(m.out, sb) {
				continue
			}
			var x []byte
			if scSame(m.a, ka) {
				x = m.b
			} else if scSame(m.b, ka) {
				x = m.a
			}
			if x != nil && edScalarOf(pA.pos, x) {
				edSet(v, edMul(&edPoint{base: edBasePoint.base}, clone(m.c)))
				return v
			}
		}
	}
	edSet(v, &edPoint{base: vUFN("ed_double_mult", 32, ka, edEncode(pA), sb)})
	return v
}

// Equal compares points, i.e. canonical encodings
func EdPointEqual(v interface{}, u interface{}) int {
	if vBytesEq(edEncode(edGet(v)), edEncode(edGet(u))) {
		return 1
	}
	return 0
}
