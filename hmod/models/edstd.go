package models

// The standard library's crypto/internal/edwards25519 mapped onto the same abstract kernels as
// the fork's (group "edabs"), so that the two packages' glue (crypto/ed25519 and pat-go/ed25519)
// can be compared symbolically. A std Scalar carries its canonical 32 bytes as ghost state.

func stdScalarBytes(s interface{}) []byte { return vGhostGet(s, "sc") }

// scalar bytes of either package's Scalar
func scBytesOf(x interface{}) []byte {
	if b := vGhostGet(x, "sc"); len(b) == 32 {
		return b
	}
	return vFieldBytes(x, 0)
}

func StdScalarSetUniformBytes(s interface{}, x []byte) (interface{}, error) {
	if len(x) != 64 {
		return nil, errf("edwards25519: invalid SetUniformBytes input length")
	}
	vGhostSet(s, "sc", scReduceTerm(x))
	return s, nil
}

func StdScalarSetBytesWithClamping(s interface{}, x []byte) (interface{}, error) {
	if len(x) != 32 {
		return nil, errf("edwards25519: invalid SetBytesWithClamping input length")
	}
	wide := make([]byte, 64)
	copy(wide, x)
	wide[0] &= 248
	wide[31] &= 63
	wide[31] |= 64
	vGhostSet(s, "sc", scReduceTerm(wide))
	return s, nil
}

// l - 1, little endian
var lMinusOne = []byte{236, 211, 245, 92, 26, 99, 18, 88, 214, 156, 247, 162, 222, 249, 222, 20, 0, 0, 0, 0, 0, 0, 0, 0, 0, 0, 0, 0, 0, 0, 0, 16}

func belowL(x []byte) bool {
	m := []byte{236, 211, 245, 92, 26, 99, 18, 88, 214, 156, 247, 162, 222, 249, 222, 20, 0, 0, 0, 0, 0, 0, 0, 0, 0, 0, 0, 0, 0, 0, 0, 16}
	for i := 31; i >= 0; i-- {
		if x[i] > m[i] {
			return false
		}
		if x[i] < m[i] {
			return true
		}
	}
	return true
}

func StdScalarSetCanonicalBytes(s interface{}, x []byte) (interface{}, error) {
	if len(x) != 32 {
		return nil, errf("invalid scalar length")
	}
	if !belowL(x) {
		return nil, errf("invalid scalar encoding")
	}
	vGhostSet(s, "sc", clone(x))
	return s, nil
}

func StdScalarMultiplyAdd(s, x, y, z interface{}) interface{} {
	vGhostSet(s, "sc", scMulAddTerm(scBytesOf(x), scBytesOf(y), scBytesOf(z)))
	return s
}

func StdScalarBytes(s interface{}) []byte { return clone(scBytesOf(s)) }
