package models

import (
	"hash"
	"io"
)

// Hashes are injective uninterpreted functions of the exact byte string (ideal hash).

func Sha256Sum256(b []byte) [32]byte {
	var out [32]byte
	copy(out[:], vUF("sha256", 32, b))
	return out
}

func Sha512Sum512(b []byte) [64]byte {
	var out [64]byte
	copy(out[:], vUF("sha512", 64, b))
	return out
}

func Sha512Sum384(b []byte) [48]byte {
	var out [48]byte
	copy(out[:], vUF("sha384", 48, b))
	return out
}

// MHash is a streaming hash: Sum applies the UF to everything written so far.
type MHash struct {
	name string
	size int
	buf  []byte
}

func (h *MHash) Write(p []byte) (int, error) { h.buf = append(h.buf, p...); return len(p), nil }
func (h *MHash) Sum(b []byte) []byte          { return append(b, vUF(h.name, h.size, h.buf)...) }
func (h *MHash) Reset()                       { h.buf = nil }
func (h *MHash) Size() int                    { return h.size }
func (h *MHash) BlockSize() int               { return 128 }

func Sha512New384() hash.Hash { return &MHash{name: "sha384", size: 48} }
func Sha512New() hash.Hash    { return &MHash{name: "sha512", size: 64} }
func Sha256New() hash.Hash    { return &MHash{name: "sha256", size: 32} }

// HKDF: output is an injective function of (secret, salt, info); only the first Read is modelled.
type MHkdf struct {
	secret, salt, info []byte
	used               bool
}

func (r *MHkdf) Read(p []byte) (int, error) {
	if r.used {
		return 0, errf("hkdf model: second read")
	}
	r.used = true
	copy(p, vUF("hkdf", len(p), r.secret, r.salt, r.info))
	return len(p), nil
}

func HkdfNew(h func() hash.Hash, secret, salt, info []byte) io.Reader {
	return &MHkdf{secret: clone(secret), salt: clone(salt), info: clone(info)}
}

// crypto/rand: arbitrary bytes, never fails.
type MRand struct{}

// Draws of 16 bytes or more do not repeat (a collision has probability 2^-128 or less): what is
// derived from two draws by injective functions is then different as well.
var randOuts [][]byte

func (MRand) Read(p []byte) (int, error) {
	out := vFresh("rand", len(p))
	if len(p) >= 16 {
		for i := range randOuts {
			if len(randOuts[i]) == len(out) {
				vAssume(!vBytesEq(randOuts[i], out))
			}
		}
		randOuts = append(randOuts, out)
	}
	copy(p, out)
	return len(p), nil
}

func RandReader() io.Reader { return MRand{} }

func RandRead(p []byte) (int, error) { return MRand{}.Read(p) }
