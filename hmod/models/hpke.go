package models

import (
	"crypto/cipher"
	"io"

	hpke "github.com/cisco/go-hpke"
)

// Ideal model of go-hpke base mode and of the AEAD / KDF objects of a cipher suite.

type MKEM struct{ id hpke.KEMID }
type MKDF struct{ id hpke.KDFID }
type MAEAD struct{ id hpke.AEADID }

type MKemPub struct{ b []byte }
type MKemPriv struct {
	secret []byte
	pub    []byte
}

func (k *MKemPriv) PublicKey() hpke.KEMPublicKey { var p interface{} = &MKemPub{k.pub}; return p }

func kemSize(id hpke.KEMID) int {
	switch id {
	case hpke.DHKEM_P256:
		return 65
	case hpke.DHKEM_P521:
		return 133
	case hpke.DHKEM_X25519:
		return 32
	case hpke.DHKEM_X448:
		return 56
	}
	return 0
}

func HpkeAssembleCipherSuite(kemID hpke.KEMID, kdfID hpke.KDFID, aeadID hpke.AEADID) (hpke.CipherSuite, error) {
	if kemSize(kemID) == 0 {
		return hpke.CipherSuite{}, errf("hpke: unknown KEM")
	}
	if kdfID != hpke.KDF_HKDF_SHA256 && kdfID != hpke.KDF_HKDF_SHA384 && kdfID != hpke.KDF_HKDF_SHA512 {
		return hpke.CipherSuite{}, errf("hpke: unknown KDF")
	}
	if aeadID != hpke.AEAD_AESGCM128 && aeadID != hpke.AEAD_AESGCM256 && aeadID != hpke.AEAD_CHACHA20POLY1305 {
		return hpke.CipherSuite{}, errf("hpke: unknown AEAD")
	}
	var kem, kdf, aead interface{} = MKEM{kemID}, MKDF{kdfID}, MAEAD{aeadID}
	return hpke.CipherSuite{KEM: kem.(hpke.KEMScheme), KDF: kdf.(hpke.KDFScheme), AEAD: aead.(hpke.AEADScheme)}, nil
}

func (k MKEM) ID() hpke.KEMID      { return k.id }
func (k MKEM) PublicKeySize() int  { return kemSize(k.id) }
func (k MKEM) PrivateKeySize() int { return kemSize(k.id) }
func (k MKEM) DeriveKeyPair(ikm []byte) (hpke.KEMPrivateKey, hpke.KEMPublicKey, error) {
	secret := vUF("kem_derive", 32, ikm)
	pub := vUF("kem_pub", kemSize(k.id), secret)
	vAssume(vUFBool("kem_pub_valid", pub))
	var sk, pk interface{} = &MKemPriv{secret: secret, pub: pub}, &MKemPub{pub}
	return sk.(hpke.KEMPrivateKey), pk, nil
}
func (k MKEM) SerializePublicKey(pk hpke.KEMPublicKey) []byte {
	var p interface{} = pk
	return clone(p.(*MKemPub).b)
}
func (k MKEM) DeserializePublicKey(b []byte) (hpke.KEMPublicKey, error) {
	if len(b) != kemSize(k.id) {
		return nil, errf("hpke: bad public key length")
	}
	if !vUFBool("kem_pub_valid", b) {
		return nil, errf("hpke: invalid public key")
	}
	var p interface{} = &MKemPub{clone(b)}
	return p, nil
}

func (k MKDF) ID() hpke.KDFID { return k.id }
func (k MKDF) OutputSize() int {
	switch k.id {
	case hpke.KDF_HKDF_SHA384:
		return 48
	case hpke.KDF_HKDF_SHA512:
		return 64
	}
	return 32
}
func (k MKDF) Extract(salt, ikm []byte) []byte { return vUF("hkdf_extract", k.OutputSize(), salt, ikm) }
func (k MKDF) Expand(prk, info []byte, L int) []byte {
	return vUF("hkdf_expand", L, prk, info)
}

func (a MAEAD) ID() hpke.AEADID { return a.id }
func (a MAEAD) KeySize() int {
	if a.id == hpke.AEAD_AESGCM128 {
		return 16
	}
	return 32
}
func (a MAEAD) NonceSize() int { return 12 }
func (a MAEAD) New(key []byte) (cipher.AEAD, error) {
	if len(key) != a.KeySize() {
		return nil, errf("aead: invalid key size")
	}
	var c interface{} = &MCipher{key: clone(key)}
	return c.(cipher.AEAD), nil
}

// AEAD: ciphertext = injective function of (key, nonce, aad, plaintext); Open succeeds only on
// ciphertexts that Seal produced under the same key, nonce and aad.
type aeadEntry struct {
	key, nonce, aad, ct, pt []byte
}

var aeadLog []aeadEntry

type MCipher struct{ key []byte }

func (c *MCipher) NonceSize() int { return 12 }
func (c *MCipher) Overhead() int  { return 16 }
func (c *MCipher) Seal(dst, nonce, pt, aad []byte) []byte {
	ct := vUF("aead_seal", len(pt)+16, c.key, nonce, aad, pt)
	aeadLog = append(aeadLog, aeadEntry{key: c.key, nonce: clone(nonce), aad: clone(aad), ct: ct, pt: clone(pt)})
	return append(dst, ct...)
}
func (c *MCipher) Open(dst, nonce, ct, aad []byte) ([]byte, error) {
	if len(ct) < 16 {
		return nil, errf("cipher: message authentication failed")
	}
	for i := range aeadLog {
		e := aeadLog[i]
		if vSameTerm(e.key, c.key) && vSameTerm(e.nonce, nonce) && vSameTerm(e.aad, aad) && vSameTerm(e.ct, ct) {
			return append(dst, e.pt...), nil
		}
	}
	for i := range aeadLog {
		e := aeadLog[i]
		if vBytesEq(e.key, c.key) {
			if vBytesEq(e.nonce, nonce) {
				if vBytesEq(e.aad, aad) {
					if vBytesEq(e.ct, ct) {
						return append(dst, e.pt...), nil
					}
				}
			}
		}
	}
	return nil, errf("cipher: message authentication failed")
}

// HPKE base mode
type hpkeSetup struct {
	enc, pkR, info []byte
	ctx            []byte
}

var (
	hpkeLog  []hpkeSetup
	sCtxID   = map[*hpke.SenderContext][]byte{}
	rCtxID   = map[*hpke.ReceiverContext][]byte{}
	sCtxSeq  = map[*hpke.SenderContext]int{}
	rCtxSeq  = map[*hpke.ReceiverContext]int{}
	hpkeSeal []aeadEntry
)

func HpkeSetupBaseS(suite hpke.CipherSuite, rnd io.Reader, pkR hpke.KEMPublicKey, info []byte) ([]byte, *hpke.SenderContext, error) {
	var p interface{} = pkR
	pk := p.(*MKemPub).b
	eph := make([]byte, len(pk))
	if _, err := io.ReadFull(rnd, eph); err != nil {
		return nil, nil, err
	}
	enc := vUF("hpke_enc", len(pk), eph)
	vAssume(vUFBool("kem_pub_valid", enc))
	ctx := vUF("hpke_ctx", 32, eph, pk, info)
	hpkeLog = append(hpkeLog, hpkeSetup{enc: enc, pkR: pk, info: clone(info), ctx: ctx})
	c := new(hpke.SenderContext)
	sCtxID[c] = ctx
	vGhostSet(c, "hpke_ctx", ctx)
	return clone(enc), c, nil
}

func HpkeSetupBaseR(suite hpke.CipherSuite, skR hpke.KEMPrivateKey, enc, info []byte) (*hpke.ReceiverContext, error) {
	var s interface{} = skR
	sk := s.(*MKemPriv)
	if len(enc) != len(sk.pub) {
		return nil, errf("hpke: bad enc length")
	}
	if !vUFBool("kem_pub_valid", enc) {
		return nil, errf("hpke: invalid enc")
	}
	c := new(hpke.ReceiverContext)
	for i := range hpkeLog {
		e := hpkeLog[i]
		if vSameTerm(e.enc, enc) && vSameTerm(e.pkR, sk.pub) && vSameTerm(e.info, info) {
			rCtxID[c] = e.ctx
			vGhostSet(c, "hpke_ctx", e.ctx)
			return c, nil
		}
	}
	for i := range hpkeLog {
		e := hpkeLog[i]
		if vBytesEq(e.enc, enc) {
			if vBytesEq(e.pkR, sk.pub) {
				if vBytesEq(e.info, info) {
					rCtxID[c] = e.ctx
					vGhostSet(c, "hpke_ctx", e.ctx)
					return c, nil
				}
			}
		}
	}
	// decapsulation of anything else yields an unrelated context
	rCtxID[c] = vUF("hpke_ctx_other", 32, sk.secret, enc, info)
	vGhostSet(c, "hpke_ctx", rCtxID[c])
	return c, nil
}

func HpkeSenderSeal(c *hpke.SenderContext, aad, pt []byte) []byte {
	seq := []byte{byte(sCtxSeq[c])}
	sCtxSeq[c]++
	ct := vUF("hpke_seal", len(pt)+16, sCtxID[c], seq, aad, pt)
	hpkeSeal = append(hpkeSeal, aeadEntry{key: sCtxID[c], nonce: seq, aad: clone(aad), ct: ct, pt: clone(pt)})
	return ct
}

func HpkeReceiverOpen(c *hpke.ReceiverContext, aad, ct []byte) ([]byte, error) {
	seq := []byte{byte(rCtxSeq[c])}
	if len(ct) < 16 {
		return nil, errf("hpke: open failed")
	}
	for i := range hpkeSeal {
		e := hpkeSeal[i]
		if vSameTerm(e.key, rCtxID[c]) && vSameTerm(e.nonce, seq) && vSameTerm(e.aad, aad) && vSameTerm(e.ct, ct) {
			rCtxSeq[c]++
			return clone(e.pt), nil
		}
	}
	for i := range hpkeSeal {
		e := hpkeSeal[i]
		if vBytesEq(e.key, rCtxID[c]) {
			if vBytesEq(e.nonce, seq) {
				if vBytesEq(e.aad, aad) {
					if vBytesEq(e.ct, ct) {
						rCtxSeq[c]++
						return clone(e.pt), nil
					}
				}
			}
		}
	}
	return nil, errf("hpke: open failed")
}

// Export is a method of the embedded context: the receiver points into the Sender/ReceiverContext
func HpkeContextExport(c interface{}, label []byte, L int) []byte {
	return vUF("hpke_export", L, vGhostGet(c, "hpke_ctx"), label)
}
