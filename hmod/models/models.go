// Package models holds Go models of dependency functions that the symbolic
// executor substitutes for the real ones (see subst.txt and DESIGN.md Appendix B).
package models
