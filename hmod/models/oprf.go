package models

import (
	"io"

	"github.com/cloudflare/circl/group"
	"github.com/cloudflare/circl/oprf"
	"github.com/cloudflare/circl/zk/dleq"
)

// Ideal-functionality model of circl's VOPRF (RFC 9497, verifiable mode), DESIGN.md Appendix B.
//   Blind(x, r)       = B(x, r)                       (element, Ne bytes)
//   Evaluate(k, e)    = E(k, e), proof P(k, [e], [z])
//   Finalize          succeeds iff every z_i = E(k, e_i) and proof = P(k, [e], [z]) for the
//                     key k behind the client's pinned public key; output F(k, x)
//   FullEvaluate(k,x) = F(k, x)

type MGroup struct {
	P384 bool
}

func GroupP384() group.Group         { var g interface{} = MGroup{P384: true}; return g.(group.Group) }
func GroupRistretto255() group.Group { var g interface{} = MGroup{P384: false}; return g.(group.Group) }

func (g MGroup) elemLen() int {
	if g.P384 {
		return 49
	}
	return 32
}
func (g MGroup) scalarLen() int {
	if g.P384 {
		return 48
	}
	return 32
}
func (g MGroup) name() string {
	if g.P384 {
		return "p384"
	}
	return "r255"
}

func (g MGroup) Params() *group.Params {
	if g.P384 {
		return &group.Params{ElementLength: 97, CompressedElementLength: 49, ScalarLength: 48}
	}
	return &group.Params{ElementLength: 32, CompressedElementLength: 32, ScalarLength: 32}
}
func (g MGroup) NewElement() group.Element { var e interface{} = &MElem{g: g}; return e.(group.Element) }
func (g MGroup) NewScalar() group.Scalar   { var s interface{} = &MScalar{g: g}; return s.(group.Scalar) }

type MElem struct {
	g   MGroup
	enc []byte
}

func (e *MElem) UnmarshalBinary(b []byte) error {
	if len(b) != e.g.elemLen() {
		return errf("invalid element length")
	}
	if !vUFBool("elem_valid_"+e.g.name(), b) {
		return errf("invalid element encoding")
	}
	e.enc = clone(b)
	return nil
}
func (e *MElem) MarshalBinaryCompress() ([]byte, error) { return clone(e.enc), nil }
func (e *MElem) MarshalBinary() ([]byte, error)         { return clone(e.enc), nil }

type MScalar struct {
	g   MGroup
	enc []byte
}

func (s *MScalar) UnmarshalBinary(b []byte) error {
	if len(b) != s.g.scalarLen() {
		return errf("invalid scalar length")
	}
	if !vUFBool("scalar_valid_"+s.g.name(), b) {
		return errf("invalid scalar encoding")
	}
	s.enc = clone(b)
	return nil
}
func (s *MScalar) MarshalBinary() ([]byte, error) { return clone(s.enc), nil }

// suites
type MSuite struct{ g MGroup }

func SuiteP384() oprf.Suite         { var s interface{} = MSuite{MGroup{true}}; return s.(oprf.Suite) }
func SuiteRistretto255() oprf.Suite { var s interface{} = MSuite{MGroup{false}}; return s.(oprf.Suite) }
func (s MSuite) Group() group.Group { var g interface{} = s.g; return g.(group.Group) }
func (s MSuite) Identifier() string { return s.g.name() }

func suiteGroup(s oprf.Suite) MGroup {
	var i interface{} = s
	return i.(MSuite).g
}

// keys: the real struct types are kept (pat-go holds *oprf.PrivateKey / *oprf.PublicKey), the key
// material lives in ghost maps keyed by pointer identity.
var (
	skSecret = map[*oprf.PrivateKey][]byte{}
	skGroup  = map[*oprf.PrivateKey]MGroup{}
	pkSecret = map[*oprf.PublicKey][]byte{}
	pkGroup  = map[*oprf.PublicKey]MGroup{}
)

func OprfGenerateKey(s oprf.Suite, rnd io.Reader) (*oprf.PrivateKey, error) {
	g := suiteGroup(s)
	seed := make([]byte, g.scalarLen())
	if _, err := io.ReadFull(rnd, seed); err != nil {
		return nil, err
	}
	k := new(oprf.PrivateKey)
	skSecret[k] = seed
	skGroup[k] = g
	return k, nil
}

func OprfDeriveKey(s oprf.Suite, mode oprf.Mode, seed, info []byte) (*oprf.PrivateKey, error) {
	g := suiteGroup(s)
	k := new(oprf.PrivateKey)
	skSecret[k] = vUF("oprf_derive_"+g.name(), g.scalarLen(), seed, info)
	skGroup[k] = g
	return k, nil
}

func OprfPrivatePublic(k *oprf.PrivateKey) *oprf.PublicKey {
	p := new(oprf.PublicKey)
	pkSecret[p] = skSecret[k]
	pkGroup[p] = skGroup[k]
	return p
}

func pkEncoding(g MGroup, secret []byte) []byte {
	enc := vUF("oprf_pk_"+g.name(), g.elemLen(), secret)
	vAssume(vUFBool("elem_valid_"+g.name(), enc))
	return enc
}

func OprfPublicMarshalBinary(p *oprf.PublicKey) ([]byte, error) {
	return pkEncoding(pkGroup[p], pkSecret[p]), nil
}

func OprfPrivateMarshalBinary(k *oprf.PrivateKey) ([]byte, error) {
	return clone(skSecret[k]), nil
}

// client
type MClientCore struct {
	G MGroup
}

type MClient struct {
	MClientCore
	Pk *oprf.PublicKey
}

type MFinalizeData struct {
	inputs [][]byte
	blinds [][]byte
	elems  [][]byte
}

func OprfNewVerifiableClient(s oprf.Suite, pk *oprf.PublicKey) MClient {
	return MClient{MClientCore{suiteGroup(s)}, pk}
}

func blindElem(g MGroup, input, blind []byte) []byte {
	enc := vUF("oprf_blind_"+g.name(), g.elemLen(), input, blind)
	vAssume(vUFBool("elem_valid_"+g.name(), enc))
	return enc
}

func clientBlind(c MClientCore, inputs [][]byte, blinds [][]byte) (*MFinalizeData, *oprf.EvaluationRequest, error) {
	if len(inputs) == 0 {
		return nil, nil, errf("oprf: no inputs")
	}
	fd := &MFinalizeData{}
	req := &oprf.EvaluationRequest{Elements: make([]oprf.Blinded, len(inputs))}
	for i := range inputs {
		if len(inputs[i]) == 0 {
			return nil, nil, errf("oprf: empty input")
		}
		enc := blindElem(c.G, inputs[i], blinds[i])
		fd.inputs = append(fd.inputs, clone(inputs[i]))
		fd.blinds = append(fd.blinds, blinds[i])
		fd.elems = append(fd.elems, enc)
		var e interface{} = &MElem{g: c.G, enc: enc}
		req.Elements[i] = e.(oprf.Blinded)
	}
	return fd, req, nil
}

func OprfClientBlind(c MClientCore, inputs [][]byte) (*MFinalizeData, *oprf.EvaluationRequest, error) {
	blinds := make([][]byte, len(inputs))
	for i := range blinds {
		blinds[i] = vFresh("oprf_blind", c.G.scalarLen())
	}
	return clientBlind(c, inputs, blinds)
}

func OprfClientDeterministicBlind(c MClientCore, inputs [][]byte, blinds []oprf.Blind) (*MFinalizeData, *oprf.EvaluationRequest, error) {
	if len(inputs) != len(blinds) {
		return nil, nil, errf("oprf: input/blind count mismatch")
	}
	bs := make([][]byte, len(blinds))
	for i := range blinds {
		var b interface{} = blinds[i]
		bs[i] = b.(*MScalar).enc
	}
	return clientBlind(c, inputs, bs)
}

// proofs live in a ghost map as well (dleq.Proof has unexported fields only)
var proofBytes = map[*dleq.Proof][]byte{}

func DleqProofUnmarshalBinary(p *dleq.Proof, g group.Group, b []byte) error {
	var gi interface{} = g
	n := gi.(MGroup).scalarLen()
	if len(b) < 2*n {
		return errf("dleq: short proof")
	}
	if !vUFBool("proof_valid_"+gi.(MGroup).name(), b[:2*n]) {
		return errf("dleq: invalid scalar in proof")
	}
	proofBytes[p] = clone(b[:2*n])
	return nil
}

func DleqProofMarshalBinary(p *dleq.Proof) ([]byte, error) { return clone(proofBytes[p]), nil }

func evalElem(g MGroup, secret, elem []byte) []byte {
	enc := vUF("oprf_eval_"+g.name(), g.elemLen(), secret, elem)
	vAssume(vUFBool("elem_valid_"+g.name(), enc))
	return enc
}

func proofFor(g MGroup, secret []byte, elems, evals [][]byte) []byte {
	var all []byte
	for i := range elems {
		all = append(all, elems[i]...)
	}
	for i := range evals {
		all = append(all, evals[i]...)
	}
	p := vUF("oprf_proof_"+g.name(), 2*g.scalarLen(), secret, all)
	vAssume(vUFBool("proof_valid_"+g.name(), p))
	return p
}

func elemBytes(e interface{}) []byte { return e.(*MElem).enc }

func OprfClientFinalize(c MClient, f *MFinalizeData, e *oprf.Evaluation) ([][]byte, error) {
	if len(f.elems) != len(e.Elements) {
		return nil, errf("oprf: mismatched element count")
	}
	secret := pkSecret[c.Pk]
	evals := make([][]byte, len(e.Elements))
	for i := range e.Elements {
		evals[i] = elemBytes(e.Elements[i])
	}
	// ideal DLEQ: the proof verifies iff it is the proof for exactly these elements under the pinned key
	ok := vBytesEq(proofBytes[e.Proof], proofFor(c.G, secret, f.elems, evals))
	for i := range evals {
		if !vBytesEq(evals[i], evalElem(c.G, secret, f.elems[i])) {
			ok = false
		}
	}
	if !ok {
		return nil, errf("oprf: proof verification failed")
	}
	out := make([][]byte, len(evals))
	for i := range evals {
		out[i] = vUF("oprf_out_"+c.G.name(), outLen(c.G), f.inputs[i], secret)
	}
	return out, nil
}

func outLen(g MGroup) int {
	if g.P384 {
		return 48
	}
	return 64
}

// server
type MServer struct {
	G  MGroup
	Sk *oprf.PrivateKey
}

func OprfNewVerifiableServer(s oprf.Suite, k *oprf.PrivateKey) MServer {
	return MServer{suiteGroup(s), k}
}

func OprfServerEvaluate(s MServer, req *oprf.EvaluationRequest) (*oprf.Evaluation, error) {
	if len(req.Elements) == 0 {
		return nil, errf("oprf: empty request")
	}
	secret := skSecret[s.Sk]
	elems := make([][]byte, len(req.Elements))
	evals := make([][]byte, len(req.Elements))
	out := &oprf.Evaluation{Elements: make([]oprf.Evaluated, len(req.Elements))}
	for i := range req.Elements {
		elems[i] = elemBytes(req.Elements[i])
		evals[i] = evalElem(s.G, secret, elems[i])
		var e interface{} = &MElem{g: s.G, enc: evals[i]}
		out.Elements[i] = e.(oprf.Evaluated)
	}
	p := new(dleq.Proof)
	proofBytes[p] = proofFor(s.G, secret, elems, evals)
	out.Proof = p
	return out, nil
}

func OprfServerFullEvaluate(s MServer, input []byte) ([]byte, error) {
	if len(input) == 0 {
		return nil, errf("oprf: empty input")
	}
	return vUF("oprf_out_"+s.G.name(), outLen(s.G), input, skSecret[s.Sk]), nil
}

// group "c17": keys carry their real (unexported) fields as well, so that circl's own lazily
// initialised Public() can be executed from its body
func OprfGenerateKeyReal(s oprf.Suite, rnd io.Reader) (*oprf.PrivateKey, error) {
	k, err := OprfGenerateKey(s, rnd)
	if err != nil {
		return nil, err
	}
	g := suiteGroup(s)
	var gi interface{} = g
	var si interface{} = &MScalar{g: g, enc: skSecret[k]}
	vSetField(k, gi, 0, 1)
	vSetField(k, si, 1)
	return k, nil
}

func (e *MElem) MulGen(s interface{}) interface{} {
	e.enc = pkEncoding(e.g, s.(*MScalar).enc)
	return e
}
