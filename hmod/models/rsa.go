package models

import (
	"crypto"
	"crypto/rsa"
	"io"
	"math/big"

	"github.com/cloudflare/circl/blindsign/blindrsa"
	"golang.org/x/crypto/cryptobyte"
	cbasn1 "golang.org/x/crypto/cryptobyte/asn1"
)

// Ideal model of RSA-2048 blind signatures (RFC 9474) and RSASSA-PSS verification.
//   Blind(pk, m, r, salt)  = BM(n, m, r, salt)            (256 bytes)
//   BlindSign(sk, bm)      = BS(secret, bm)               (256 bytes), refuses other lengths
//   Finalize(state, bs)    succeeds iff bs = BS(secret_of(pk), bm_of(state)); returns
//                          Sig(secret, m, salt), which is recorded as a valid PSS signature
//   VerifyPSS(pk, d, sig)  succeeds iff (n_of(pk), d, sig) was recorded
// The key material hangs off the modulus pointer, which the public and private key share.

var rsaSecret = map[*big.Int][]byte{}

type pssEntry struct {
	n       *big.Int
	digest  []byte
	sig     []byte
	saltLen int // length of the PSS salt the signature was made with
}

var pssLog []pssEntry

func RsaGenerateKey(random io.Reader, bits int) (*rsa.PrivateKey, error) {
	nb := vFresh("rsa_n", bits/8)
	vAssume(nb[0]&0x80 != 0) // a full-size modulus
	vAssume(nb[len(nb)-1]&1 == 1)
	n := newBig(nb)
	rsaSecret[n] = vFresh("rsa_d", bits/8)
	k := &rsa.PrivateKey{PublicKey: rsa.PublicKey{N: n, E: 65537}, D: newBig(rsaSecret[n])}
	return k, nil
}

type MVerifier struct {
	Pk *rsa.PublicKey
}

type MVerifierState struct {
	Pk      *rsa.PublicKey
	Msg     []byte
	Salt    []byte
	R       []byte
	Blinded []byte
}

func BlindrsaNewVerifier(pk *rsa.PublicKey, h crypto.Hash) blindrsa.Verifier {
	var v interface{} = MVerifier{pk}
	return v.(blindrsa.Verifier)
}

func (v MVerifier) blind(message, r, salt []byte) ([]byte, MVerifierState, error) {
	n := bigMag[v.Pk.N]
	bm := vUF("rsa_blind", len(n), n, message, r, salt)
	vAssume(!vUFBool("rsa_msg_out_of_range", n, bm)) // a blinded message is reduced mod N
	return bm, MVerifierState{Pk: v.Pk, Msg: clone(message), Salt: clone(salt), R: clone(r), Blinded: bm}, nil
}

func (v MVerifier) Blind(random io.Reader, message []byte) ([]byte, MVerifierState, error) {
	n := bigMag[v.Pk.N]
	r := make([]byte, len(n))
	if _, err := io.ReadFull(random, r); err != nil {
		return nil, MVerifierState{}, err
	}
	salt := make([]byte, 48)
	if _, err := io.ReadFull(random, salt); err != nil {
		return nil, MVerifierState{}, err
	}
	return v.blind(message, r, salt)
}

func (v MVerifier) FixedBlind(message, blind, salt []byte) ([]byte, MVerifierState, error) {
	n := bigMag[v.Pk.N]
	if vUFBool("rsa_blind_out_of_range", n, blind) {
		return nil, MVerifierState{}, errf("blindrsa: invalid blind")
	}
	return v.blind(message, blind, salt)
}

func (v MVerifier) Verify(message, signature []byte) error {
	return RsaVerifyPSS(v.Pk, crypto.SHA384, vUF("sha384", 48, message), signature, nil)
}

func BlindrsaStateFinalize(s MVerifierState, data []byte) ([]byte, error) {
	n := bigMag[s.Pk.N]
	if len(data) != len(n) {
		return nil, errf("blindrsa: unexpected input size")
	}
	secret := rsaSecret[s.Pk.N]
	if !vBytesEq(data, vUF("rsa_blindsig", len(n), secret, s.Blinded)) {
		return nil, errf("blindrsa: invalid signature")
	}
	sig := vUF("rsa_sig", len(n), secret, s.Msg, s.Salt)
	pssLog = append(pssLog, pssEntry{n: s.Pk.N, digest: vUF("sha384", 48, s.Msg), sig: sig, saltLen: len(s.Salt)})
	return sig, nil
}

type MSigner struct {
	Sk *rsa.PrivateKey
}

func BlindrsaNewSigner(sk *rsa.PrivateKey) MSigner { return MSigner{sk} }

func BlindrsaSignerBlindSign(s MSigner, data []byte) ([]byte, error) {
	n := bigMag[s.Sk.N]
	if len(data) != len(n) {
		return nil, errf("blindrsa: unexpected input size")
	}
	if vUFBool("rsa_msg_out_of_range", n, data) {
		return nil, errf("blindrsa: message too large")
	}
	return vUF("rsa_blindsig", len(n), rsaSecret[s.Sk.N], data), nil
}

func RsaVerifyPSS(pub *rsa.PublicKey, h crypto.Hash, digest []byte, sig []byte, opts *rsa.PSSOptions) error {
	// the salt length the verifier insists on: -2 = any (PSSSaltLengthAuto or no options)
	want := -2
	if opts != nil {
		switch opts.SaltLength {
		case rsa.PSSSaltLengthAuto:
		case rsa.PSSSaltLengthEqualsHash:
			want = h.Size()
		default:
			want = opts.SaltLength
		}
	}
	for i := range pssLog {
		e := pssLog[i]
		if e.n == pub.N && (want == -2 || want == e.saltLen) {
			if vBytesEq(e.digest, digest) {
				if vBytesEq(e.sig, sig) {
					return nil
				}
			}
		}
	}
	return errf("crypto/rsa: verification error")
}

// DER of RSAPublicKey ::= SEQUENCE { modulus INTEGER, publicExponent INTEGER }, standing in for
// encoding/asn1.Marshal (reflection based) on util.pkcs1PSSPublicKey.
func derLen(n int) []byte {
	switch {
	case n < 0x80:
		return []byte{byte(n)}
	case n < 0x100:
		return []byte{0x81, byte(n)}
	case n < 0x10000:
		return []byte{0x82, byte(n >> 8), byte(n)}
	}
	return []byte{0x83, byte(n >> 16), byte(n >> 8), byte(n)}
}

func derUint(mag []byte) []byte {
	m := stripZeros(mag)
	var body []byte
	if len(m) == 0 {
		body = []byte{0}
	} else if m[0]&0x80 != 0 {
		body = append([]byte{0}, m...)
	} else {
		body = m
	}
	out := append([]byte{0x02}, derLen(len(body))...)
	return append(out, body...)
}

func DerRSAPublicKey(nMag []byte, e int) []byte {
	eb := []byte{byte(e >> 56), byte(e >> 48), byte(e >> 40), byte(e >> 32), byte(e >> 24), byte(e >> 16), byte(e >> 8), byte(e)}
	body := append(derUint(nMag), derUint(eb)...)
	out := append([]byte{0x30}, derLen(len(body))...)
	return append(out, body...)
}

type pkcs1Like struct {
	N *big.Int
	E int
}

func Asn1Marshal(val interface{}) ([]byte, error) {
	n := vStructField(val, 0).(*big.Int)
	e := vStructField(val, 1).(int)
	return DerRSAPublicKey(bigMag[n], e), nil
}

// x509.MarshalPKIXPublicKey for an RSA key (rsaEncryption SubjectPublicKeyInfo), by template.
func X509MarshalPKIXPublicKey(pub interface{}) ([]byte, error) {
	k := pub.(*rsa.PublicKey)
	inner := DerRSAPublicKey(bigMag[k.N], k.E)
	bits := append([]byte{0x03}, derLen(len(inner)+1)...)
	bits = append(bits, 0x00)
	bits = append(bits, inner...)
	alg := []byte{0x30, 0x0d, 0x06, 0x09, 0x2a, 0x86, 0x48, 0x86, 0xf7, 0x0d, 0x01, 0x01, 0x01, 0x05, 0x00}
	body := append(alg, bits...)
	out := append([]byte{0x30}, derLen(len(body))...)
	return append(out, body...), nil
}

// x509.ParsePKCS1PublicKey by its documented behaviour: RSAPublicKey ::= SEQUENCE { modulus
// INTEGER, publicExponent INTEGER }, no trailing data, positive modulus and exponent, exponent
// at most 2^31-1.
func X509ParsePKCS1PublicKey(der []byte) (*rsa.PublicKey, error) {
	s := cryptobyte.String(der)
	var seq cryptobyte.String
	if !s.ReadASN1(&seq, cbasn1.SEQUENCE) || !s.Empty() {
		return nil, errf("x509: invalid RSA public key")
	}
	n := new(big.Int)
	var e int64
	if !seq.ReadASN1Integer(n) || !seq.ReadASN1Integer(&e) || !seq.Empty() {
		return nil, errf("x509: invalid RSA public key")
	}
	if bigNegative[n] || BigSign(n) == 0 {
		return nil, errf("x509: public key contains zero or negative value")
	}
	if e <= 0 {
		return nil, errf("x509: public key contains zero or negative value")
	}
	if e > 1<<31-1 {
		return nil, errf("x509: public key contains large public exponent")
	}
	return &rsa.PublicKey{N: n, E: int(e)}, nil
}
