package models

// Declarations of the engine intrinsics used by the models (symbolic execution only).

func vUF(name string, outLen int, parts ...[]byte) []byte { panic("symbolic only") }
func vUFN(name string, outLen int, parts ...[]byte) []byte { panic("symbolic only") }
func vBytesLess(a, b []byte) bool                         { panic("symbolic only") }
func vConcreteLen(a []byte) bool                          { panic("symbolic only") }
func vUFBool(name string, parts ...[]byte) bool           { panic("symbolic only") }
func vFresh(name string, n int) []byte                    { panic("symbolic only") }
func vFreshBool(name string) bool                         { panic("symbolic only") }
func vBytesEq(a, b []byte) bool                           { panic("symbolic only") }
func vStructField(v interface{}, i int) interface{}       { panic("symbolic only") }
func vGhostSet(p interface{}, name string, v []byte)      { panic("symbolic only") }
func vGhostGet(p interface{}, name string) []byte         { panic("symbolic only") }
func vSameTerm(a, b []byte) bool                          { panic("symbolic only") }
func vFieldBytes(p interface{}, i int) []byte             { panic("symbolic only") }
func vSetField(p interface{}, v interface{}, path ...int)  { panic("symbolic only") }
func vAssume(c bool)                                      { panic("symbolic only") }

func clone(b []byte) []byte {
	out := make([]byte, len(b))
	copy(out, b)
	return out
}

type mErr struct{ s string }

func (e *mErr) Error() string { return e.s }

func errf(s string) error { return &mErr{s} }
