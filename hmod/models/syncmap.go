package models

import "sync"

// sync.Map as a plain map per object (its internal atomics are not encodable); the operations
// are linearizable by contract, so they are not reported by the shared-state write monitor.
var syncMaps = map[*sync.Map]map[interface{}]interface{}{}

func smap(m *sync.Map) map[interface{}]interface{} {
	if syncMaps[m] == nil {
		syncMaps[m] = map[interface{}]interface{}{}
	}
	return syncMaps[m]
}

func SyncMapLoad(m *sync.Map, key interface{}) (interface{}, bool) {
	v, ok := smap(m)[key]
	return v, ok
}

func SyncMapStore(m *sync.Map, key, value interface{}) { smap(m)[key] = value }

func SyncMapLoadOrStore(m *sync.Map, key, value interface{}) (interface{}, bool) {
	if v, ok := smap(m)[key]; ok {
		return v, true
	}
	smap(m)[key] = value
	return value, false
}

func SyncMapDelete(m *sync.Map, key interface{}) { delete(smap(m), key) }
