#!/usr/bin/env python3
"""lintreplay.py: every harness file must build natively with only its own file, the package's
zz_verif_common*.go and the runtime (that is what a counterexample replay overlays). A harness
that does not build cannot be replayed, so its violations would stay inconclusive."""
import glob, json, os, re, subprocess, sys
V, REPO, TMP = "/verif", os.environ.get("VERIF_REPO", "/repo"), "/verif/tmp"
ENV = dict(os.environ, GOFLAGS="-mod=mod", GOPROXY="off", GOSUMDB="off", GOTOOLCHAIN="local")
bad = 0
for hfile in sorted(glob.glob(V + "/harness/**/zz_verif_*.go", recursive=True)):
    base = os.path.basename(hfile)
    if base.startswith("zz_verif_common") or "/_rt/" in hfile:
        continue
    reldir = os.path.relpath(os.path.dirname(hfile), V + "/harness")
    src = open(hfile).read()
    pkg = re.search(r"^package (\w+)", src, re.M).group(1)
    names = re.findall(r"^func (Verif\w+)\(\)", src, re.M)
    rt = open(V + "/harness/_rt/rt.go.tmpl").read().replace("package PKG", "package " + pkg, 1)
    tt = open(V + "/harness/_rt/rt_test.go.tmpl").read().replace("package PKG", "package " + pkg, 1)
    tt = tt.replace("/*TABLE*/", "".join('\t"%s": %s,\n' % (n, n) for n in names))
    rtp, ttp = TMP + "/lint_rt.go", TMP + "/lint_rt_test.go"
    open(rtp, "w").write(rt); open(ttp, "w").write(tt)
    repl = {os.path.join(REPO, reldir, base): hfile, os.path.join(REPO, reldir, "zz_verif_rt.go"): rtp,
            os.path.join(REPO, reldir, "zz_verif_rt_test.go"): ttp}
    for f in glob.glob(os.path.join(V, "harness", reldir, "zz_verif_common*.go")):
        repl[os.path.join(REPO, reldir, os.path.basename(f))] = f
    ovp = TMP + "/lint_ov.json"
    json.dump({"Replace": repl}, open(ovp, "w"))
    p = subprocess.run(["go", "test", "-vet=off", "-count=1", "-overlay", ovp, "-run", "^$", "./" + reldir + "/"],
                       cwd=REPO, env=ENV, capture_output=True, text=True)
    ok = p.returncode == 0
    print(("ok   " if ok else "FAIL ") + os.path.relpath(hfile, V))
    if not ok:
        bad += 1
        print("     " + "\n     ".join((p.stdout + p.stderr).strip().splitlines()[:6]))
sys.exit(1 if bad else 0)
