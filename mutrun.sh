#!/bin/bash
# mutrun.sh <patch-or-sedscript.sh> <harness regex> [engine args]: symbolic verdicts on a scratch copy of /repo
# (for trying changes while /repo itself is in use; no native replay; not a registered command)
set -e
patch=$1; rx=$2; shift 2
M=/tmp/mut.$$; mkdir -p $M
mkdir -p $M/repo && git -C /repo archive HEAD | tar -x -C $M/repo   # committed tree, whatever the working tree is doing
rsync -a /verif/hmod/ $M/hmod/
sed -i "s#=> /repo#=> $M/repo#" $M/hmod/go.mod
case "$patch" in
  *.diff|*.patch) (cd $M/repo && patch -p1 -s < $patch) ;;
  *.sh) (cd $M/repo && bash $patch) ;;
  none) ;;
esac
export GOFLAGS=-mod=mod GOPROXY=off GOSUMDB=off GOTOOLCHAIN=local
(cd $M/repo && go build ./... ) || { echo "does not build"; rm -rf $M; exit 2; }
timeout 1500 /verif/bin/gosmt -dir $M/hmod -repo $M/repo -run "$rx" -v 1 "$@" 2>&1 | grep -v '^\s*\.\.\.' | tail -15 | cut -c1-220
rm -rf $M
