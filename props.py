# per-property configuration of the check driver
PROPS = {
    "C19": {
        "level_text": "Every function of quicwire/wire.go is executed symbolically from its SSA; for all 2^62 values, all buffers up to the stated lengths with symbolic spare capacity, and all declared lengths the solver shows the RFC 9000 oracle assertions unsat-to-violate; bounded only in buffer length.",
        "level_note": "Trusted: go/ssa construction, the engine's encoding of Go semantics (Appendix A of DESIGN.md), z3. Bounds: decoder inputs <= 12 bytes, payloads <= 70 (quick) / 16400 (thorough) bytes.",
        "explanation": "all ten functions of quicwire/wire.go executed symbolically from SSA; varint values are 64-bit symbolic, buffers symbolic in length and content",
        "assumptions": ["v <= 2^62-1 for the encoder (documented panic above)", "payload length bound as stated in bounds"],
        "outside": ["payloads longer than the stated bound", "values above 2^62-1 (documented panic)"],
    },
}
