# per-property configuration of the check driver
PROPS = {
    "C05": {
        "level_text": "EvaluateBatch and the response-list decoder are executed symbolically for every batch of n requests over {type 1, type 2}, every configuration of up to two model issuers per type with symbolic truncated key ids and every success/failure pattern: the decoded list has exactly n entries in order, an entry is present iff a configured issuer of that type and truncated id succeeds and then equals that issuer's response byte for byte. A second harness runs the batch end to end over the wire with real type-1 issuers (VOPRF contract) and finalizes every present entry under its own request state.",
        "level_note": "Batch size <= 3 (quick) ; model issuers stand for arbitrary Issuer implementations; the end-to-end harness is relative to the VOPRF contract. Configurations in which a wrong-key issuer with a colliding truncated key id precedes the right one are outside the claim.",
        "explanation": "batch_isolation (model issuers) and batch_e2e_type1",
        "assumptions": ["Issuer implementations are deterministic per call and return responses of their type's length"],
        "outside": ["batches longer than the bound", "truncated key id collisions with the wrong key listed first", "type-2 end-to-end finalisation (covered for single issuance under C01/C02)"],
    },
    "C11": {
        "level_text": "CreateTokenRequestWithBlind(s) is executed twice symbolically with equal arguments and independent nondeterminism: the request bytes must be equal (no randomness or hidden state is consulted), each batch element must equal the element its own (nonce, blind) pair yields alone, and the finalized tokens for two arbitrary blinds must be byte-identical (the ideal VOPRF / blind-RSA output does not mention the blind). The shipped Rust vectors are replayed as translator-validation input, not as a solver verdict.",
        "level_note": "The for-all-pairs-of-blinds part is decided down to the dependency boundary: that unblinding cancels blinding inside circl is the dependency contract.",
        "explanation": "fixed_blind harnesses per type",
        "assumptions": ["DeterministicBlind / FixedBlind are functions of (inputs, blinds, salt, key)", "VOPRF output F(k, x) and RSA signature Sig(sk, m, salt) do not depend on the blind"],
        "outside": ["cancellation of the blind inside circl", "byte agreement with the Rust vectors (concrete data, validation only)"],
    },
    "C01": {
        "level_text": "The whole honest run of each token type (create request -> Marshal -> fresh Unmarshal -> Evaluate -> response bytes -> Finalize -> Verify) is executed symbolically over the dependency contracts; the solver shows that no step can fail and that the token is type||nonce||SHA-256(challenge)||key_id||authenticator with the authenticator length of its type, for every challenge within the length bound, every nonce / key / blind value.",
        "level_note": "Relative to the ideal-functionality contracts of VOPRF, blind RSA, HPKE, ECDSA and the hashes (DESIGN.md Appendix B); challenge lengths are case-split up to the bound.",
        "explanation": "honest_<type> harnesses",
        "assumptions": ["dependency contracts of Appendix B"],
        "outside": ["correctness of the dependencies themselves", "challenges longer than the bound"],
    },
    "C02": {
        "level_text": "Client finalization is executed symbolically on honest-then-perturbed responses (every bit position, foreign key, foreign request, dropped/duplicated/swapped batch elements) and on arbitrary response bytes: the solver shows that every perturbed response is rejected and that success implies a token that verifies under the issuer key and carries the request's nonce, digest and key id (also on a second finalization after the caller overwrote the first token).",
        "level_note": "Relative to the ideal VOPRF / blind-RSA / AEAD contracts (a proof verifies iff it was produced for exactly these elements under the pinned key).",
        "explanation": "client_rejects / success_implies_valid / refinalize harnesses per type",
        "assumptions": ["dependency contracts of Appendix B"],
        "outside": ["soundness of DLEQ, RSA-PSS and AEAD themselves"],
    },
    "C10": {
        "level_text": "Verify of the type-1 and type-5 issuers is executed symbolically over the ideal VOPRF model: for every token with field lengths in the stated ranges the solver decides accept <=> authenticator == F(k, type||nonce||context||key_id) (the oracle input is concatenated independently by the harness), and that any changed field / authenticator / key is rejected (F injective).",
        "level_note": "Relative to the VOPRF contract (FullEvaluate is a deterministic injective function of key and exact input bytes); circl itself is not verified.",
        "explanation": "exactness and binding harnesses for both issuers",
        "assumptions": ["VOPRF FullEvaluate = injective uninterpreted function of (exact input bytes, key)"],
        "outside": ["field lengths outside the stated ranges", "that circl implements RFC 9497"],
    },
    "C03": {
        "level_text": "Each peer-facing decoder / protocol step is executed symbolically on a byte string of symbolic length and content; every Go runtime check (index, slice, nil, make, type assertion, explicit panic) is a solver query on every path, loops carry unwinding checks, and every allocation whose size depends on the input is compared with 64*len+4096.",
        "level_note": "Bounded by the input lengths in evidence.bounds; cryptographic callees are contract stubs (result and error both nondeterministic); panics and allocation inside dependencies are outside the claim.",
        "explanation": "no-panic / termination / allocation-bound harness per entry point",
        "assumptions": ["dependency functions do not panic and allocate proportionally", "strings.Split abstracted for long inputs in the challenge decoder"],
        "outside": ["inputs longer than the stated bounds", "util.UnmarshalTokenKey (encoding/asn1 is reflection based; not encodable)"],
    },
    "C04": {
        "level_text": "Encoders and decoders (real cryptobyte String/Builder SSA) are executed symbolically: round trip of every well-formed value within the field bounds, canonical re-encoding of every accepted byte string (also on reused objects holding an arbitrary earlier value and cached encoding), and type separation.",
        "level_note": "Bounded by the field / input lengths in evidence.bounds; lengths of small variable fields are case-split.",
        "explanation": "rt_ (value -> bytes -> value), canon_ (accepted bytes -> value -> bytes), typesep_ harnesses per wire structure",
        "assumptions": ["well-formed: fixed-size fields have their RFC sizes; issuer name non-empty; origin info elements comma-free"],
        "outside": ["fields longer than the stated bounds", "EncapKey (needs the HPKE model; covered under C18/C07 harnesses)"],
    },
    "C19": {
        "level_text": "Every function of quicwire/wire.go is executed symbolically from its SSA; for all 2^62 values, all buffers up to the stated lengths with symbolic spare capacity, and all declared lengths the solver shows the RFC 9000 oracle assertions unsat-to-violate; bounded only in buffer length.",
        "level_note": "Trusted: go/ssa construction, the engine's encoding of Go semantics (Appendix A of DESIGN.md), z3. Bounds: decoder inputs <= 12 bytes, payloads <= 70 (quick) / 16400 (thorough) bytes.",
        "explanation": "all ten functions of quicwire/wire.go executed symbolically from SSA; varint values are 64-bit symbolic, buffers symbolic in length and content",
        "assumptions": ["v <= 2^62-1 for the encoder (documented panic above)", "payload length bound as stated in bounds"],
        "outside": ["payloads longer than the stated bound", "values above 2^62-1 (documented panic)"],
    },
}
