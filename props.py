# per-property configuration of the check driver
PROPS = {
    "C10": {
        "level_text": "Verify of the type-1 and type-5 issuers is executed symbolically over the ideal VOPRF model: for every token with field lengths in the stated ranges the solver decides accept <=> authenticator == F(k, type||nonce||context||key_id) (the oracle input is concatenated independently by the harness), and that any changed field / authenticator / key is rejected (F injective).",
        "level_note": "Relative to the VOPRF contract (FullEvaluate is a deterministic injective function of key and exact input bytes); circl itself is not verified.",
        "explanation": "exactness and binding harnesses for both issuers",
        "assumptions": ["VOPRF FullEvaluate = injective uninterpreted function of (exact input bytes, key)"],
        "outside": ["field lengths outside the stated ranges", "that circl implements RFC 9497"],
    },
    "C03": {
        "level_text": "Each peer-facing decoder / protocol step is executed symbolically on a byte string of symbolic length and content; every Go runtime check (index, slice, nil, make, type assertion, explicit panic) is a solver query on every path, loops carry unwinding checks, and every allocation whose size depends on the input is compared with 64*len+4096.",
        "level_note": "Bounded by the input lengths in evidence.bounds; cryptographic callees are contract stubs (result and error both nondeterministic); panics and allocation inside dependencies are outside the claim.",
        "explanation": "no-panic / termination / allocation-bound harness per entry point",
        "assumptions": ["dependency functions do not panic and allocate proportionally", "strings.Split abstracted for long inputs in the challenge decoder"],
        "outside": ["inputs longer than the stated bounds", "util.UnmarshalTokenKey (encoding/asn1 is reflection based; not encodable)"],
    },
    "C04": {
        "level_text": "Encoders and decoders (real cryptobyte String/Builder SSA) are executed symbolically: round trip of every well-formed value within the field bounds, canonical re-encoding of every accepted byte string (also on reused objects holding an arbitrary earlier value and cached encoding), and type separation.",
        "level_note": "Bounded by the field / input lengths in evidence.bounds; lengths of small variable fields are case-split.",
        "explanation": "rt_ (value -> bytes -> value), canon_ (accepted bytes -> value -> bytes), typesep_ harnesses per wire structure",
        "assumptions": ["well-formed: fixed-size fields have their RFC sizes; issuer name non-empty; origin info elements comma-free"],
        "outside": ["fields longer than the stated bounds", "EncapKey (needs the HPKE model; covered under C18/C07 harnesses)"],
    },
    "C19": {
        "level_text": "Every function of quicwire/wire.go is executed symbolically from its SSA; for all 2^62 values, all buffers up to the stated lengths with symbolic spare capacity, and all declared lengths the solver shows the RFC 9000 oracle assertions unsat-to-violate; bounded only in buffer length.",
        "level_note": "Trusted: go/ssa construction, the engine's encoding of Go semantics (Appendix A of DESIGN.md), z3. Bounds: decoder inputs <= 12 bytes, payloads <= 70 (quick) / 16400 (thorough) bytes.",
        "explanation": "all ten functions of quicwire/wire.go executed symbolically from SSA; varint values are 64-bit symbolic, buffers symbolic in length and content",
        "assumptions": ["v <= 2^62-1 for the encoder (documented panic above)", "payload length bound as stated in bounds"],
        "outside": ["payloads longer than the stated bound", "values above 2^62-1 (documented panic)"],
    },
}
