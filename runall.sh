#!/bin/bash
# runall.sh [tier]: run every claimed check in parallel, print one summary line each
tier=${1:-quick}
cd /verif
props=$(python3 -c "import json;print(' '.join(c['property_id'] for c in json.load(open('MANIFEST.json'))['checks']))")
mkdir -p tmp/runall
for p in $props; do
  ( timeout 7200 ./check $p --tier $tier > tmp/runall/$p.log 2>&1; echo "rc=$?" >> tmp/runall/$p.log ) &
done
wait
for p in $props; do echo "$(grep -E '^SUMMARY' tmp/runall/$p.log) $(tail -1 tmp/runall/$p.log)"; grep -E "^(VIOLATION|KNOWN|ENCODER)" tmp/runall/$p.log | head -5; grep -E "^INCONC" tmp/runall/$p.log | head -3 | cut -c1-200; done
