#!/bin/bash
# sequential thorough run of every claimed check (each check parallelises over its harnesses)
cd /verif; mkdir -p tmp/thorough
for p in $(python3 -c "import json;print(' '.join(c['property_id'] for c in json.load(open('MANIFEST.json'))['checks']))"); do
  s=$(date +%s); timeout 5400 ./check $p --tier thorough > tmp/thorough/$p.log 2>&1; rc=$?
  echo "$p rc=$rc $(( $(date +%s)-s ))s $(grep -E '^SUMMARY' tmp/thorough/$p.log)"
done
