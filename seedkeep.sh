#!/bin/bash
# seedkeep.sh <id> [name]: copy a confirmed seed from /tmp/seed/<id>.out into /verif/seeded/<name>/
id=$1; name=${2:-$1}; src=/tmp/seed/$id.out; dst=/verif/seeded/$name
mkdir -p $dst
cp $src/patch.diff $dst/patch.diff
demo=$(cat $src/demo_path.txt | tr -d '\n ')
cp $src/$(basename $demo) $dst/$(basename $demo)
python3 - "$id" "$src" "$dst" "$demo" <<'PY'
import json,sys
pid,src,dst,demo=sys.argv[1:5]
m=json.load(open(src+'/meta.json'))
out={"property":pid,"summary":m.get("summary"),"needs_to_manifest":m.get("needs"),"demo_path":demo,"demo_cmd":m.get("demo_cmd"),
 "confirmed_by_me":{"how":"seedverify.sh: fresh worktree of /repo at the original commit 30573e9; demo test passes without patch, fails with patch; go build ./... and full go test ./... pass with patch (demo file moved away)","demo_passes_without":True,"demo_fails_with":True,"suite_passes_with":True},
 "author":"independent sub-agent given only the property text"}
json.dump(out,open(dst+'/meta.json','w'),indent=1)
PY
echo kept $dst
