#!/bin/bash
# seedkeep2.sh <id>: keep a confirmed round-2 seed as /verif/seeded/<id>b
id=$1; src=/tmp/seed/${id}b.out; dst=/verif/seeded/${id}b
mkdir -p $dst; cp $src/patch.diff $dst/patch.diff
demo=$(cat $src/demo_path.txt | tr -d '\n '); cp $src/$(basename $demo) $dst/$(basename $demo)
python3 - "$id" "$src" "$dst" "$demo" <<'PY'
import json,sys
pid,src,dst,demo=sys.argv[1:5]
m=json.load(open(src+'/meta.json'))
out={"property":pid,"round":2,"summary":m.get("summary"),"needs_to_manifest":m.get("needs"),"demo_path":demo,"demo_cmd":m.get("demo_cmd"),
 "confirmed_by_me":{"how":"seedverify3.sh: fresh worktree of /repo at the repaired HEAD; demo test passes without patch, fails with patch; go build ./... and full go test ./... pass with patch (demo file removed)","demo_passes_without":True,"demo_fails_with":True,"suite_passes_with":True},
 "author":"independent sub-agent given only the property text (told to differ from the round-1 seed)"}
json.dump(out,open(dst+'/meta.json','w'),indent=1)
PY
