#!/bin/bash
# seedkeep4.sh <id> <suffix> <round>: keep a confirmed seed as /verif/seeded/<id><suffix>
id=$1; suf=$2; round=$3; src=/tmp/seed/${id}${suf}.out; dst=/verif/seeded/${id}${suf}
mkdir -p $dst; cp $src/patch.diff $dst/patch.diff
demo=$(cat $src/demo_path.txt | tr -d '\n '); cp $src/$(basename $demo) $dst/$(basename $demo)
python3 - "$id" "$src" "$dst" "$demo" "$round" <<'PY'
import json,sys
pid,src,dst,demo,rnd=sys.argv[1:6]
m=json.load(open(src+'/meta.json'))
out={"property":pid,"round":int(rnd),"summary":m.get("summary"),"needs_to_manifest":m.get("needs"),"demo_path":demo,"demo_cmd":m.get("demo_cmd"),
 "confirmed_by_me":{"how":"seedverify4.sh: fresh worktree of /repo at the repaired HEAD; demo test passes without patch, fails with patch; go build ./... and full go test ./... pass with patch (demo file removed)","demo_passes_without":True,"demo_fails_with":True,"suite_passes_with":True},
 "author":"independent sub-agent given only the property text (told to differ from the earlier seeds)"}
json.dump(out,open(dst+'/meta.json','w'),indent=1)
PY
