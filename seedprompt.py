#!/usr/bin/env python3
# seedprompt.py <suffix>: writes /tmp/seed/<id><suffix>.prompt.txt for every property (round >= 3):
# the property text, the workspace rules, and the summaries of the earlier seeded changes to avoid
import json, sys, glob, os
suf = sys.argv[1]
for l in open('/verif/properties.jsonl'):
    p = json.loads(l); pid = p['id']; w = pid + suf
    prev = []
    for d in sorted(glob.glob('/verif/seeded/%s*/meta.json' % pid)):
        prev.append(json.load(open(d))['summary'].replace('"', "'"))
    txt = f"""You are helping test a verification effort on the Go repository cloudflare/pat-go (reference implementation of IETF Privacy Pass token issuance). Your job: write ONE realistic source change (a "seeded bug") that BREAKS the property below, while the repository still compiles and its existing test suite still passes, plus a demonstration that exposes the breakage.

PROPERTY {pid}: {p['title']}
Statement: {p['statement']}
Quantified over: {p['quantifier']['text']}
Files most relevant: {', '.join(p['anchors']['files'])}

YOUR WORKSPACE: a private git worktree of the repository at /tmp/seed/{w} (work ONLY there; never touch /repo or /verif, and do not read anything under /verif). Put your deliverables in /tmp/seed/{w}.out/.

Shell preamble for every go command (the sandbox is offline):
  export GOFLAGS=-mod=mod GOPROXY=off GOSUMDB=off GOTOOLCHAIN=local
Run the existing tests with:  cd /tmp/seed/{w} && go test -vet=off -count=1 ./...

REQUIREMENTS for the change:
1. It must be a plausible edit a maintainer could make by accident (refactor slip, off-by-one, wrong constant, dropped check, reordered statements, wrong slice/offset, cached value not refreshed, aliasing, missing copy, etc.) — not sabotage that is obviously malicious, and not a change of exported API signatures.
2. The repository must still build (go build ./...; go vet is NOT required) and the COMPLETE existing test suite must still pass with the change applied.
3. The breakage must need something SPECIFIC to manifest — an unusual input (boundary length, particular byte value, specific varint size class), a particular multi-step sequence of calls, an object reused twice, a particular interleaving or fault position, or two cooperating edits that each look fine alone. It must NOT be something any ordinary honest use exposes at once (otherwise the existing tests would likely catch it).
4. The unmodified tree may already contain defects with respect to this property. Your change must introduce a NEW violation: your demonstration must PASS on the unmodified tree and FAIL with your change.
5. Only modify non-test .go source files of the repository for the change itself (no edits to existing *_test.go files, go.mod, or vendored code). Keep it small (ideally 1-10 changed lines).

DEMONSTRATION: a new Go test file (e.g. <pkg>/seed_demo_test.go, package-internal or external as needed) containing one test function that FAILS with your change applied and PASSES without it. It may use only packages already available to the module (standard library, github.com/cloudflare/circl, github.com/cisco/go-hpke, golang.org/x/crypto). Verify both directions yourself: (a) with change: go test -run <YourTest> ./<pkg>/ fails; (b) save the change with `git diff > patch.diff` and reverse it with `git apply -R` (do NOT use `git stash`: the stash is shared between worktrees and other agents work in parallel), check the demo passes, then re-apply the patch; (c) with change: the complete existing suite passes (run with your demo file temporarily moved away or with -skip).

DELIVERABLES in /tmp/seed/{w}.out/ :
  - patch.diff : output of `git diff` for the source change ONLY (not the demo test file), relative to the worktree root, applicable with `git apply`.
  - the demo test file (same file name as in the worktree), and demo_path.txt containing its path relative to the repo root.
  - meta.json : {{"property": "{pid}", "summary": "<what the change does>", "needs": "<what specific input/sequence/interleaving is needed for it to manifest>", "demo_cmd": "<go test command to run the demo>", "verified": {{"demo_fails_with_change": true/false, "demo_passes_without": true/false, "suite_passes_with_change": true/false}}}}
Leave the worktree with the change applied and the demo file present. Be efficient: read the relevant files, design the change, verify, write deliverables. Final answer: a 5-line summary of the change and what you verified.

DIVERSITY: earlier seeded changes for this property already did the following, so do something DIFFERENT from all of them (another function, another mechanism, another kind of trigger, ideally another clause of the property statement):
""" + "\n".join('  - "%s"' % s for s in prev) + """
Note also that the repository in your worktree has had several defects repaired recently (length checks in decoders, cached encodings reset on Unmarshal, fresh buffers instead of append onto shared slices, attester error handling, issuer constructors calling key.Public()); re-introducing exactly one of those repairs in reverse is allowed only if it is not the obvious one-line revert.
"""
    open('/tmp/seed/%s.prompt.txt' % w, 'w').write(txt)
print("written")
