#!/bin/bash
# seedtest.sh <seedname> <prop> [check args]: apply seeded patch to /repo, run the check, undo
name=$1; prop=$2; shift 2
cd /repo && P=/verif/seeded/$name/patch.diff; [ -f /verif/seeded/$name/patch_on_fixed_tree.diff ] && P=/verif/seeded/$name/patch_on_fixed_tree.diff; git apply $P || { echo "patch does not apply"; exit 3; }
cd /verif && timeout 3000 ./check $prop "$@" > /verif/tmp/seedtest_$name.log 2>&1; rc=$?
cd /repo && git checkout -- . && git status --short | head -3
grep -E "^(VIOLATION|KNOWN|SUMMARY|  harness)" /verif/tmp/seedtest_$name.log | head -12
echo "seed=$name prop=$prop rc=$rc"
