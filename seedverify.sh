#!/bin/bash
# seedverify.sh <id> [srcdir]: confirm a seeded change in a scratch worktree of /repo's ORIGINAL commit:
#   demo passes without the patch, fails with it; the full suite passes with it.
set -u
export GOFLAGS=-mod=mod GOPROXY=off GOSUMDB=off GOTOOLCHAIN=local
id=$1; src=${2:-/tmp/seed/$id.out}
base=${SEED_BASE:-30573e9}
wt=/tmp/sv_$id
rm -rf $wt; git -C /repo worktree prune
git -C /repo worktree add -q --detach $wt $base || exit 2
demo=$(cat $src/demo_path.txt | tr -d '\n ')
mkdir -p $wt/$(dirname $demo); cp $src/$(basename $demo) $wt/$demo
pkg=./$(dirname $demo)/
tests=$(grep -oE '^func (Test\w+)' $wt/$demo | awk '{print $2}' | paste -sd'|')
cd $wt
r_without=$(go test -vet=off -count=1 -run "^($tests)\$" $pkg >/tmp/sv_$id.without.log 2>&1; echo $?)
git apply $src/patch.diff || { echo "PATCH DOES NOT APPLY"; cd /; git -C /repo worktree remove --force $wt; exit 3; }
r_with=$(go test -vet=off -count=1 -run "^($tests)\$" $pkg >/tmp/sv_$id.with.log 2>&1; echo $?)
mv $wt/$demo /tmp/sv_$id.demo.go
r_suite=$(go test -vet=off -count=1 ./... >/tmp/sv_$id.suite.log 2>&1; echo $?)
r_build=$(go build ./... >/dev/null 2>&1; echo $?)
cd /; git -C /repo worktree remove --force $wt
echo "$id demo_without=$r_without demo_with=$r_with suite_with=$r_suite build=$r_build tests=$tests"
if [ "$r_without" = 0 ] && [ "$r_with" != 0 ] && [ "$r_suite" = 0 ] && [ "$r_build" = 0 ]; then echo "$id CONFIRMED"; else echo "$id NOT-CONFIRMED"; fi
