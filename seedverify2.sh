#!/bin/bash
# seedverify2.sh <id>: confirm a seed (rebased patch if present) against the CURRENT /repo HEAD
set -u
export GOFLAGS=-mod=mod GOPROXY=off GOSUMDB=off GOTOOLCHAIN=local
id=$1; src=/verif/seeded/$id
P=$src/patch.diff; [ -f $src/patch_on_fixed_tree.diff ] && P=$src/patch_on_fixed_tree.diff
wt=/tmp/sv2_$id; rm -rf $wt; git -C /repo worktree prune
git -C /repo worktree add -q --detach $wt HEAD || exit 2
demo=$(python3 -c "import json;print(json.load(open('$src/meta.json'))['demo_path'])")
mkdir -p $wt/$(dirname $demo); cp $src/$(basename $demo) $wt/$demo
pkg=./$(dirname $demo)/
tests=$(grep -oE '^func (Test\w+)' $wt/$demo | awk '{print $2}' | paste -sd'|')
cd $wt
r_without=$(go test -vet=off -count=1 -run "^($tests)\$" $pkg >/dev/null 2>&1; echo $?)
git apply $P || { echo "$id PATCH DOES NOT APPLY"; cd /; git -C /repo worktree remove --force $wt; exit 3; }
r_with=$(go test -vet=off -count=1 -run "^($tests)\$" $pkg >/dev/null 2>&1; echo $?)
rm $wt/$demo
r_suite=$(go test -vet=off -count=1 ./... >/dev/null 2>&1; echo $?)
cd /; git -C /repo worktree remove --force $wt
echo "$id on HEAD: demo_without=$r_without demo_with=$r_with suite_with=$r_suite"
