#!/bin/bash
# seedverify4.sh <id> <suffix>: confirm seed /tmp/seed/<id><suffix>.out against current /repo HEAD in a fresh worktree
set -u
export GOFLAGS=-mod=mod GOPROXY=off GOSUMDB=off GOTOOLCHAIN=local
id=$1; suf=$2; src=/tmp/seed/${id}${suf}.out
wt=/tmp/sv4_$id$suf; rm -rf $wt; git -C /repo worktree prune
git -C /repo worktree add -q --detach $wt HEAD || exit 2
demo=$(cat $src/demo_path.txt | tr -d '\n ')
mkdir -p $wt/$(dirname $demo); cp $src/$(basename $demo) $wt/$demo
pkg=./$(dirname $demo)/
tests=$(grep -oE '^func (Test\w+)' $wt/$demo | awk '{print $2}' | paste -sd'|')
race=""; grep -q -- "-race" $src/meta.json && race="-race"
cd $wt
r_without=$(go test $race -vet=off -count=1 -run "^($tests)\$" $pkg >/dev/null 2>&1; echo $?)
git apply $src/patch.diff || { echo "$id PATCH DOES NOT APPLY"; cd /; git -C /repo worktree remove --force $wt; exit 3; }
r_with=$(go test $race -vet=off -count=1 -run "^($tests)\$" $pkg >/dev/null 2>&1; echo $?)
rm $wt/$demo
r_suite=$(go test -vet=off -count=1 ./... >/dev/null 2>&1; echo $?)
r_build=$(go build ./... >/dev/null 2>&1; echo $?)
cd /; git -C /repo worktree remove --force $wt
echo "$id$suf: demo_without=$r_without demo_with=$r_with suite_with=$r_suite build=$r_build"
