#!/bin/sh
# offline build of the engine; harness module go.sum follows the repository's
set -e
export GOFLAGS=-mod=mod GOPROXY=off GOSUMDB=off GOTOOLCHAIN=local
cd /verif/engine && go build -o /verif/bin/gosmt .
cp /repo/go.sum /verif/hmod/go.sum
mkdir -p /verif/tmp /verif/evidence
# warm the build cache for the packages the loader type-checks
cd /verif/hmod && go build ./... >/dev/null 2>&1 || true
echo setup ok
