# translator-validation inputs: the repository's own vectors plus seeded random mutations of them
import json, glob, os, random

REPO = os.environ.get("VERIF_REPO", "/repo")


def _vec(path):
    try:
        d = json.load(open(os.path.join(REPO, path)))
    except Exception:
        return []
    return d if isinstance(d, list) else [d]


def _hexes(paths, keys):
    out = []
    for p in paths:
        for v in _vec(p):
            for k in keys:
                x = v.get(k)
                if isinstance(x, str):
                    out.append(x)
                elif isinstance(x, list):
                    out += [y for y in x if isinstance(y, str)]
    good = []
    for h in out:
        try:
            bytes.fromhex(h)
            good.append(h)
        except ValueError:
            pass
    return good


def _mutations(rnd, seeds, n, maxlen):
    cases = []
    for h in seeds:
        b = bytes.fromhex(h)
        if len(b) <= maxlen:
            cases.append(b)
    pool = [c for c in cases] or [b""]
    while len(cases) < len(pool) + n:
        b = bytearray(rnd.choice(pool))
        op = rnd.randrange(5)
        if op == 0 and b:
            b[rnd.randrange(len(b))] ^= 1 << rnd.randrange(8)
        elif op == 1 and b:
            b = b[:rnd.randrange(len(b))]
        elif op == 2:
            b += bytes(rnd.randrange(256) for _ in range(rnd.randrange(1, 5)))
        elif op == 3 and len(b) > 4:
            i = rnd.randrange(len(b) - 2)
            b[i:i + 2] = bytes([rnd.choice([0, 0x3f, 0x40, 0x7f, 0x80, 0xbf, 0xc0, 0xff]), rnd.randrange(256)])
        else:
            b = bytearray(rnd.randrange(256) for _ in range(rnd.randrange(0, min(maxlen, 40))))
        if len(b) <= maxlen:
            cases.append(bytes(b))
    return cases


def _bytes_cases(harness, rnd, seeds, n, maxlen, extra=None):
    out = []
    for b in _mutations(rnd, seeds, n, maxlen):
        inp = {"b": {"hex": b.hex(), "len": len(b)}}
        if extra:
            inp.update(extra(rnd))
        out.append({"harness": harness, "inputs": inp})
    return out


def cases_for(pid, rnd, n=40):
    T = "tokens/"
    c = []
    if pid in ("C19", "C03", "C04"):
        c += _bytes_cases("VerifTV_quicwire", rnd, ["00", "3f", "4000", "7fff", "80000000", "bfffffff", "c000000000000000", "ffffffffffffffff", "0548656c6c6f", "4005776f726c64"], n, 16,
                          extra=lambda r: {"v": str(r.choice([0, 63, 64, 16383, 16384, 1073741823, 1073741824, (1 << 62) - 1, r.randrange(1 << 62)]))})
    if pid in ("C03", "C04"):
        c += _bytes_cases("VerifTV_challenge", rnd, _hexes([T + "type1/type1-issuance-test-vectors.json", T + "type2/type2-issuance-test-vectors.json", T + "type5/type5-issuance-test-vectors.json"], ["token_challenge"]), n, 300)
        for t in ("type1", "type2", "type5"):
            c += _bytes_cases("VerifTV_%s_request" % t, rnd, _hexes([T + "%s/%s-issuance-test-vectors.json" % (t, t)], ["token_request", "token", "tokens"]), n, 700)
        c += _bytes_cases("VerifTV_type3_request", rnd, _hexes([T + "type2/type2-issuance-test-vectors.json"], ["token"]), n, 700)
        c += _bytes_cases("VerifTV_batched", rnd, _hexes([T + "batched/batched-issuance-test-vectors-rust.json", T + "batched/batched-issuance-test-vectors.json"], ["token_request", "token_response"]), n, 1500)
    if pid in ("C14", "C15"):
        L = (2**252 + 27742317777372353535851937790883648493)
        seeds = [(L + d).to_bytes(32, "little").hex() for d in (-2, -1, 0, 1, 18, 19)] + ["00" * 32, "ff" * 32, "01" + "00" * 31]
        out = []
        for h in seeds + [bytes(rnd.randrange(256) for _ in range(32)).hex() for _ in range(n)]:
            out.append({"harness": "VerifTV_scalar", "inputs": {"b": {"hex": h, "len": 32}}})
        c += out
    if pid in ("C18",):
        pks = _hexes([T + "type2/type2-issuance-test-vectors.json"], ["pkS"])
        c += _bytes_cases("VerifTV_token_key", rnd, pks, n // 2, 400)
    return c
